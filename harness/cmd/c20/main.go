// C20 harness: Block.Deserialization / Header.Deserialization / ComputeMerkleRoot on blocks built with the repository's own
// types (Header, Block.RebuildMerkleRoot, ToArray) and on their mutations (reordered / duplicated / dropped / modified
// transactions, every header field, alternative public-key encodings, hostile counts, byte-level edits).
package main

import (
	"bytes"
	"crypto/ed25519"
	"encoding/binary"
	"encoding/hex"
	"fmt"
	"strings"

	"github.com/ontio/ontology-crypto/ec"
	"github.com/ontio/ontology-crypto/keypair"
	"github.com/ontio/ontology/common"
	"github.com/ontio/ontology/core/types"
	g "verif/harness/internal/c19gen"
	"verif/harness/internal/hx"
)

// ---------- keys and their encodings ----------

func keyOf(r *hx.Rand) keypair.PublicKey {
	switch r.Intn(6) {
	case 0:
		seed := make([]byte, 32)
		seed[0] = byte(1 + r.Intn(20))
		return ed25519.NewKeyFromSeed(seed).Public().(ed25519.PublicKey)
	default:
		return g.P256Key(int64(1 + r.Intn(60)))
	}
}

// an encoding of the key that DeserializePublicKey accepts; form 0 = canonical
func encodeKey(pk keypair.PublicKey, form int, r *hx.Rand) []byte {
	canon := keypair.SerializePublicKey(pk)
	p, ok := pk.(*ec.PublicKey)
	if !ok {
		if form == 4 {
			return append(append([]byte{}, canon...), r.Bytes(1+r.Intn(3))...) // rejected: Ed25519 length is checked
		}
		return canon
	}
	switch form {
	case 1: // uncompressed 04 || X || Y
		return ec.EncodePublicKey(p.PublicKey, false)
	case 2: // explicit algorithm + curve label in front of the compressed point
		return append([]byte{byte(keypair.PK_ECDSA), keypair.P256}, canon...)
	case 3: // label + uncompressed
		return append([]byte{byte(keypair.PK_ECDSA), keypair.P256}, ec.EncodePublicKey(p.PublicKey, false)...)
	case 4: // trailing bytes after the point
		return append(append([]byte{}, canon...), r.Bytes(1+r.Intn(3))...)
	}
	return canon
}

// ---------- block as a tuple of wire pieces ----------

type spec struct {
	version               uint32
	prev, txroot, blkroot [32]byte
	timestamp, height     uint32
	consData              uint64
	consPayload           []byte
	nextBk                [20]byte
	keyBlobs              [][]byte
	sigs                  [][]byte
	txs                   [][]byte
	bkCount, sigCount     *uint64 // overrides of the counts on the wire
	txCount               *uint32
	widenIdx, widenTo     int
	headerOnly            bool
}

func (s *spec) encode() (out []byte, unsignedLen int) {
	nvu := 0
	vu := func(v uint64) {
		w := 0
		if nvu == s.widenIdx {
			w = s.widenTo
		}
		out = g.PutVU(out, v, w)
		nvu++
	}
	vb := func(d []byte) {
		vu(uint64(len(d)))
		out = append(out, d...)
	}
	out = binary.LittleEndian.AppendUint32(out, s.version)
	out = append(out, s.prev[:]...)
	out = append(out, s.txroot[:]...)
	out = append(out, s.blkroot[:]...)
	out = binary.LittleEndian.AppendUint32(out, s.timestamp)
	out = binary.LittleEndian.AppendUint32(out, s.height)
	out = binary.LittleEndian.AppendUint64(out, s.consData)
	vb(s.consPayload)
	out = append(out, s.nextBk[:]...)
	unsignedLen = len(out)
	if s.bkCount != nil {
		vu(*s.bkCount)
	} else {
		vu(uint64(len(s.keyBlobs)))
	}
	for _, k := range s.keyBlobs {
		vb(k)
	}
	if s.sigCount != nil {
		vu(*s.sigCount)
	} else {
		vu(uint64(len(s.sigs)))
	}
	for _, x := range s.sigs {
		vb(x)
	}
	if s.headerOnly {
		return
	}
	if s.txCount != nil {
		out = binary.LittleEndian.AppendUint32(out, *s.txCount)
	} else {
		out = binary.LittleEndian.AppendUint32(out, uint32(len(s.txs)))
	}
	for _, t := range s.txs {
		out = append(out, t...)
	}
	return
}

func txHashes(raws [][]byte) []common.Uint256 {
	var hs []common.Uint256
	for _, raw := range raws {
		tx, err := types.TransactionFromRawBytes(append([]byte{}, raw...))
		if err != nil {
			panic("generated transaction rejected: " + err.Error())
		}
		hs = append(hs, tx.Hash())
	}
	return hs
}

func (s *spec) fixRoot() {
	s.txroot = common.ComputeMerkleRoot(txHashes(s.txs))
}

func randTx(r *hx.Rand) []byte {
	if r.Chance(25) {
		tx, _ := g.RandEip(r, 0)
		otx, err := types.TransactionFromEIP155(tx)
		if err != nil {
			panic(err)
		}
		return otx.Raw
	}
	_, raw := g.RandOnt(r)
	return raw
}

// a valid block built with the repository's types; the piecewise encoder must reproduce its ToArray()
func randBlock(r *hx.Rand) *spec {
	s := &spec{widenIdx: -1}
	s.version = uint32(r.Intn(3))
	copy(s.prev[:], r.Bytes(32))
	copy(s.blkroot[:], r.Bytes(32))
	s.timestamp = uint32(r.U64())
	s.height = uint32(r.U64() >> uint(r.Intn(32)))
	s.consData = r.U64()
	s.consPayload = r.Bytes([]int{0, 0, 3, 20, 0xfc, 0xfd}[r.Intn(6)])
	copy(s.nextBk[:], r.Bytes(20))
	hdr := &types.Header{Version: s.version, PrevBlockHash: s.prev, BlockRoot: s.blkroot, Timestamp: s.timestamp, Height: s.height,
		ConsensusData: s.consData, ConsensusPayload: s.consPayload, NextBookkeeper: s.nextBk}
	nk := []int{0, 1, 1, 2, 4, 7}[r.Intn(6)]
	for i := 0; i < nk; i++ {
		pk := keyOf(r)
		hdr.Bookkeepers = append(hdr.Bookkeepers, pk)
		s.keyBlobs = append(s.keyBlobs, keypair.SerializePublicKey(pk))
		sg := r.Bytes(1 + r.Intn(70))
		hdr.SigData = append(hdr.SigData, sg)
		s.sigs = append(s.sigs, sg)
	}
	if r.Chance(20) && len(s.sigs) > 0 {
		s.sigs = s.sigs[:len(s.sigs)-1]
		hdr.SigData = hdr.SigData[:len(hdr.SigData)-1]
	}
	ntx := []int{0, 0, 1, 2, 3, 3, 4, 5, 6, 7, 8, 9}[r.Intn(12)]
	seen := map[string]bool{}
	blk := &types.Block{Header: hdr}
	for len(s.txs) < ntx {
		raw := randTx(r)
		if seen[string(raw)] {
			continue
		}
		seen[string(raw)] = true
		tx, err := types.TransactionFromRawBytes(append([]byte{}, raw...))
		if err != nil {
			panic(err)
		}
		s.txs = append(s.txs, raw)
		blk.Transactions = append(blk.Transactions, tx)
	}
	blk.RebuildMerkleRoot()
	s.txroot = hdr.TransactionsRoot
	mine, _ := s.encode()
	if !bytes.Equal(mine, blk.ToArray()) {
		panic("piecewise block encoder and Block.ToArray disagree")
	}
	return s
}

func u64p(v uint64) *uint64 { return &v }
func u32p(v uint32) *uint32 { return &v }

var hugeCounts = []uint64{1 << 63, 1<<63 + 1, 1<<64 - 1, 1<<63 - 1, 1 << 32, 0xfd, 0x10000}

func mutate(r *hx.Rand, s *spec) string {
	switch r.Intn(22) {
	case 0, 1:
		return "valid"
	case 2: // reorder, stale root
		if len(s.txs) >= 2 {
			i, j := r.Intn(len(s.txs)), r.Intn(len(s.txs))
			s.txs[i], s.txs[j] = s.txs[j], s.txs[i]
		}
		return "reorder-stale-root"
	case 3: // reorder, root recomputed: another valid block
		if len(s.txs) >= 2 {
			i, j := r.Intn(len(s.txs)), r.Intn(len(s.txs))
			s.txs[i], s.txs[j] = s.txs[j], s.txs[i]
		}
		s.fixRoot()
		return "reorder-new-root"
	case 4: // duplicate the last transaction: for an odd list the merkle root does not change (duplicate-last pairing)
		if len(s.txs) > 0 {
			s.txs = append(s.txs, s.txs[len(s.txs)-1])
		}
		return "dup-last-stale-root"
	case 5:
		if len(s.txs) > 0 {
			s.txs = append(s.txs, s.txs[r.Intn(len(s.txs))])
		}
		s.fixRoot()
		return "dup-new-root"
	case 6: // repeat the last pair / last half: other shapes with an unchanged root
		if n := len(s.txs); n >= 2 {
			s.txs = append(s.txs, s.txs[n-2], s.txs[n-1])
		}
		return "dup-pair-stale-root"
	case 7:
		if len(s.txs) > 0 {
			i := r.Intn(len(s.txs))
			s.txs = append(s.txs[:i], s.txs[i+1:]...)
		}
		if r.Bool() {
			s.fixRoot()
			return "drop-new-root"
		}
		return "drop-stale-root"
	case 8: // modify one transaction (still a valid transaction), stale root
		if len(s.txs) > 0 {
			s.txs[r.Intn(len(s.txs))] = randTx(r)
		}
		return "replace-tx-stale-root"
	case 9: // each unsigned header field
		switch r.Intn(9) {
		case 0:
			s.version = uint32(r.U64())
		case 1:
			s.prev[r.Intn(32)] ^= byte(1 + r.Intn(255))
		case 2:
			s.txroot[r.Intn(32)] ^= byte(1 + r.Intn(255))
		case 3:
			s.blkroot[r.Intn(32)] ^= byte(1 + r.Intn(255))
		case 4:
			s.timestamp++
		case 5:
			s.height ^= 1 << uint(r.Intn(32))
		case 6:
			s.consData ^= 1 << uint(r.Intn(64))
		case 7:
			s.consPayload = append(s.consPayload, byte(r.U64()))
		default:
			s.nextBk[r.Intn(20)] ^= byte(1 + r.Intn(255))
		}
		return "header-field"
	case 10, 11: // alternative encodings of the bookkeeper keys
		if len(s.keyBlobs) == 0 {
			s.keyBlobs = append(s.keyBlobs, keypair.SerializePublicKey(g.P256Key(7)))
		}
		i := r.Intn(len(s.keyBlobs))
		pk, err := keypair.DeserializePublicKey(s.keyBlobs[i])
		if err != nil {
			panic(err)
		}
		s.keyBlobs[i] = encodeKey(pk, 1+r.Intn(4), r)
		return "alt-key-encoding"
	case 12: // not a key
		s.keyBlobs = append(s.keyBlobs, r.Bytes(r.Intn(40)))
		return "bad-key"
	case 13:
		s.bkCount = u64p(hugeCounts[r.Intn(len(hugeCounts))])
		if r.Chance(30) {
			s.bkCount = u64p(uint64(len(s.keyBlobs)) + uint64(r.Intn(3)) - 1)
		}
		return "bookkeeper-count"
	case 14:
		s.sigCount = u64p(hugeCounts[r.Intn(len(hugeCounts))])
		if r.Chance(30) {
			s.sigCount = u64p(uint64(len(s.sigs)) + uint64(r.Intn(3)) - 1)
		}
		return "sig-count"
	case 15:
		s.txCount = u32p(uint32(len(s.txs)) + uint32(r.Intn(3)) - 1)
		if r.Chance(20) {
			s.txCount = u32p(1<<32 - 1)
		}
		return "tx-count"
	case 16:
		_, _ = s.encode()
		s.widenIdx = r.Intn(3 + len(s.keyBlobs) + len(s.sigs))
		s.widenTo = []int{3, 5, 9}[r.Intn(3)]
		return "widen-varuint"
	case 17: // signature data edits do not touch the hash
		if len(s.sigs) > 0 {
			s.sigs[r.Intn(len(s.sigs))] = r.Bytes(r.Intn(8))
		} else {
			s.sigs = append(s.sigs, r.Bytes(3))
		}
		return "sigdata"
	case 18: // a transaction with a flipped byte
		if len(s.txs) > 0 {
			i := r.Intn(len(s.txs))
			t := append([]byte{}, s.txs[i]...)
			t[r.Intn(len(t))] ^= byte(1 + r.Intn(255))
			s.txs[i] = t
		}
		return "tx-byte"
	default:
		return "bytes"
	}
}

func byteMutate(r *hx.Rand, b []byte) []byte {
	b = append([]byte{}, b...)
	if len(b) == 0 {
		return b
	}
	switch r.Intn(4) {
	case 0:
		b[r.Intn(len(b))] = byte(r.U64())
	case 1:
		return b[:r.Intn(len(b))]
	case 2:
		return append(b, r.Bytes(1+r.Intn(4))...)
	default:
		b[r.Intn(len(b))] ^= 1 << uint(r.Intn(8))
	}
	return b
}

// ---------- oracle for the bookkeeper blobs ----------

type walked struct {
	unsignedLen int
	bkCount     uint64
	sigCount    uint64
	blobs       [][]byte
	ok          bool // reached the end of the signed part structurally
}

func walk(bs []byte) walked {
	var w walked
	src := common.NewZeroCopySource(bs)
	if src.Skip(4 + 96 + 4 + 4 + 8) {
		return w
	}
	_, _, _, eof := src.NextVarBytes()
	if eof || src.Skip(20) {
		return w
	}
	w.unsignedLen = int(src.Pos())
	n, _, _, eof := src.NextVarUint()
	if eof {
		return w
	}
	w.bkCount = n
	save := src.Pos()
	// the blobs a decoder iterating n times would read (cap 48): these are the ones the oracle must know
	complete := true
	for i := uint64(0); i < n && i < 48; i++ {
		b, _, _, eof := src.NextVarBytes()
		if eof {
			complete = false
			break
		}
		w.blobs = append(w.blobs, b)
	}
	if n >= 1<<63 {
		// int(n) < 0: the shipped code reads no blob; the signature count follows the bookkeeper count directly
		src = common.NewZeroCopySource(bs)
		src.Skip(save)
	} else if n > 48 || !complete {
		return w
	}
	m, _, _, eof := src.NextVarUint()
	if eof {
		return w
	}
	w.sigCount = m
	w.ok = true
	return w
}

func keysOracle(bs []byte) string {
	w := walk(bs)
	seen := map[string]bool{}
	var ents []string
	for _, b := range w.blobs {
		if seen[string(b)] || len(b) == 0 {
			continue
		}
		seen[string(b)] = true
		pk, err := keypair.DeserializePublicKey(b)
		if err != nil {
			continue
		}
		c := keypair.SerializePublicKey(pk)
		if bytes.Equal(c, b) {
			ents = append(ents, hex.EncodeToString(b)+"==")
		} else {
			ents = append(ents, hex.EncodeToString(b)+"="+hex.EncodeToString(c))
		}
	}
	if len(ents) == 0 {
		return "-"
	}
	return strings.Join(ents, ";")
}

// ---------- gen ----------

func gen(r *hx.Rand, tier string, i int) string {
	switch r.Intn(12) {
	case 0: // merkle root of a random list (hashes drawn from a small pool, so duplicates occur)
		n := r.Intn(10)
		var hs []string
		for j := 0; j < n; j++ {
			h := make([]byte, 32)
			h[0] = byte(r.Intn(6))
			h[31] = byte(r.Intn(3))
			hs = append(hs, hex.EncodeToString(h))
		}
		if n == 0 {
			return "M -"
		}
		return "M " + strings.Join(hs, ",")
	case 1: // header only: Header.Deserialization, or the same bytes through RawHeader.Deserialization
		s := randBlock(r)
		s.headerOnly = true
		kind := mutate(r, s)
		b, _ := s.encode()
		if kind == "bytes" {
			b = byteMutate(r, b)
		}
		if r.Chance(40) {
			return "R " + g.ToBx(b)
		}
		return "H " + g.ToBx(b) + " " + keysOracle(b)
	case 2:
		if r.Chance(50) {
			return "X " + g.ToBx(genCCM(r))
		}
		fallthrough
	default:
		s := randBlock(r)
		kind := mutate(r, s)
		b, _ := s.encode()
		if kind == "bytes" {
			b = byteMutate(r, b)
		}
		return "B " + g.ToBx(b) + " " + g.Oracle(b, nil) + " " + keysOracle(b)
	}
}

// ---------- CrossChainMsg ----------

// counts for which the shipped decoder would try to allocate gigabytes (make([][]byte, 0, n)): never executed
func ccmDanger(bs []byte) bool {
	src := common.NewZeroCopySource(bs)
	if src.Skip(1 + 4 + 32) {
		return false
	}
	n, _, irr, eof := src.NextVarUint()
	return !irr && !eof && n > 1<<20 && n <= (1<<48)/24
}

func genCCM(r *hx.Rand) []byte {
	for {
		m := &types.CrossChainMsg{Version: byte(r.Intn(3)), Height: uint32(r.U64())}
		copy(m.StatesRoot[:], r.Bytes(32))
		ns := []int{0, 0, 1, 2, 5}[r.Intn(5)]
		for i := 0; i < ns; i++ {
			m.SigData = append(m.SigData, r.Bytes([]int{0, 1, 65, 70, 0xfd}[r.Intn(5)]))
		}
		sink := common.NewZeroCopySink(nil)
		m.Serialization(sink)
		b := append([]byte{}, sink.Bytes()...)
		switch r.Intn(6) {
		case 0, 1:
		case 2: // hostile count in front of the real signatures
			cs := []uint64{uint64(ns) + 1, 0xfd, 0x10000, (1<<48)/24 + 1, 1 << 52, 1 << 63, 1<<64 - 1, 1<<63 - 1}
			head := g.PutVU(append([]byte{}, b[:37]...), cs[r.Intn(len(cs))], 0)
			rest := common.NewZeroCopySource(b[37:])
			rest.NextVarUint()
			b = append(head, b[37+int(rest.Pos()):]...)
		case 3: // widened count
			head := g.PutVU(append([]byte{}, b[:37]...), uint64(ns), []int{3, 5, 9}[r.Intn(3)])
			b = append(head, b[38:]...)
		default:
			b = byteMutate(r, b)
		}
		if !ccmDanger(b) {
			return b
		}
	}
}

func execCCM(line string, bs []byte) (res hx.Result) {
	res = hx.Result{Key: line}
	if ccmDanger(bs) {
		return hx.Result{Out: "refused: count would make the shipped decoder allocate gigabytes"}
	}
	defer func() {
		if e := recover(); e != nil {
			res = hx.Result{Out: "PANIC", Key: line, Kind: "ccm-panic", Fail: "CrossChainMsg.Deserialization panics: " + fmt.Sprint(e)}
			if strings.Contains(fmt.Sprint(e), "makeslice") {
				res.Class = "crosschainmsg-count-makeslice-panic"
			} else {
				res.Class = "crosschainmsg-panic"
			}
		}
	}()
	src := common.NewZeroCopySource(append([]byte{}, bs...))
	m := new(types.CrossChainMsg)
	if err := m.Deserialization(src); err != nil {
		k := g.KindOf(err)
		return hx.Result{Out: "reject:" + k, Kind: "ccm-rej-" + k, Key: line}
	}
	pos := int(src.Pos())
	sink := common.NewZeroCopySink(nil)
	m.Serialization(sink)
	sg := "-"
	if len(m.SigData) > 0 {
		var x []string
		for _, d := range m.SigData {
			x = append(x, hx.Hex(d))
		}
		sg = strings.Join(x, ",")
	}
	h := m.Hash()
	res.Kind = "ccm-ok"
	res.Out = fmt.Sprintf("ok pos=%d v=%d height=%d root=%s re=%s hash=%s sigs=%s", pos, m.Version, m.Height, hex.EncodeToString(m.StatesRoot[:]),
		g.HexL(sink.Bytes()), hex.EncodeToString(h[:]), sg)
	if !bytes.Equal(sink.Bytes(), bs[:pos]) {
		res.Fail, res.Class = "CrossChainMsg re-encoding differs from the consumed bytes", "crosschainmsg-reencode-differs"
	}
	return res
}

// ---------- exec ----------

func hdrDump(h *types.Header) string {
	hh := h.Hash()
	return fmt.Sprintf("hash=%s re=%s height=%d bk=%d sigs=%d", hex.EncodeToString(hh[:]), g.HexL(h.ToArray()), h.Height, len(h.Bookkeepers), len(h.SigData))
}

// classify a re-encoding difference by the shape of the input
func reencodeClass(bs []byte) string {
	w := walk(bs)
	if w.bkCount >= 1<<63 || w.sigCount >= 1<<63 {
		return "header-list-count-int-wrap-reencode"
	}
	for _, b := range w.blobs {
		if pk, err := keypair.DeserializePublicKey(b); err == nil && !bytes.Equal(keypair.SerializePublicKey(pk), b) {
			return "noncanonical-bookkeeper-key-reencode"
		}
	}
	return "reencode-differs"
}

func headerPredicate(h *types.Header, consumed []byte, input []byte) (string, string) {
	w := walk(input)
	hh := h.Hash()
	if !w.ok || w.unsignedLen > len(consumed) || g.Sha256d(consumed[:w.unsignedLen]) != hh {
		return "header hash is not sha256d of the unsigned part of the consumed bytes", "header-hash-not-over-unsigned-part"
	}
	return "", ""
}

func exec(line string) hx.Result {
	f := strings.Fields(line)
	if len(f) < 2 {
		return hx.Result{Out: "bad-op"}
	}
	switch f[0] {
	case "M":
		var hs []common.Uint256
		if f[1] != "-" {
			for _, x := range strings.Split(f[1], ",") {
				var u common.Uint256
				copy(u[:], hx.MustUnhex(x))
				hs = append(hs, u)
			}
		}
		in := append([]common.Uint256{}, hs...)
		root := common.ComputeMerkleRoot(hs)
		res := hx.Result{Out: hex.EncodeToString(root[:]), Kind: fmt.Sprintf("merkle-%d", len(in)), Key: line}
		// reference: recursive definition, computed independently
		if ref := refRoot(in); ref != root {
			res.Fail, res.Class = "ComputeMerkleRoot differs from the duplicate-last pairing tree", "merkle-root-not-pairing-tree"
		}
		return res
	case "X":
		return execCCM(line, g.FromBx(f[1]))
	case "R":
		bs := g.FromBx(f[1])
		src := common.NewZeroCopySource(append([]byte{}, bs...))
		rh := &types.RawHeader{}
		if err := rh.Deserialization(src); err != nil {
			k := g.KindOf(err)
			return hx.Result{Out: "reject:" + k, Kind: "raw-rej-" + k, Key: line}
		}
		pos := int(src.Pos())
		res := hx.Result{Out: fmt.Sprintf("ok pos=%d height=%d payload=%s", pos, rh.Height, g.HexL(rh.Payload)), Kind: "raw-ok", Key: line}
		if !bytes.Equal(rh.Payload, bs[:pos]) {
			res.Fail, res.Class = "RawHeader.Payload is not the consumed bytes", "rawheader-payload-not-consumed-bytes"
			return res
		}
		// whatever Header.Deserialization accepts, RawHeader accepts too, with the same extent and height
		h := &types.Header{}
		hs := common.NewZeroCopySource(append([]byte{}, bs...))
		if err := h.Deserialization(hs); err == nil && (int(hs.Pos()) != pos || h.Height != rh.Height) {
			res.Fail, res.Class = "RawHeader and Header disagree on extent or height", "rawheader-disagrees-with-header"
		}
		return res
	case "H":
		if len(f) != 3 {
			return hx.Result{Out: "bad-op"}
		}
		bs := g.FromBx(f[1])
		src := common.NewZeroCopySource(append([]byte{}, bs...))
		h := &types.Header{}
		if err := h.Deserialization(src); err != nil {
			k := g.KindOf(err)
			return hx.Result{Out: "reject:" + k, Kind: "hdr-rej-" + k, Key: line}
		}
		pos := int(src.Pos())
		res := hx.Result{Out: fmt.Sprintf("ok pos=%d %s", pos, hdrDump(h)), Kind: "hdr-ok", Key: line}
		res.Fail, res.Class = headerPredicate(h, bs[:pos], bs)
		if res.Fail == "" && !bytes.Equal(h.ToArray(), bs[:pos]) {
			res.Class = reencodeClass(bs)
			res.Fail = "header re-encoding differs from the consumed bytes"
			res.Kind = "hdr-ok-reencode-differs"
		}
		return res
	case "B":
		if len(f) != 4 {
			return hx.Result{Out: "bad-op"}
		}
		types.CheckChainID = false
		bs := g.FromBx(f[1])
		src := common.NewZeroCopySource(append([]byte{}, bs...))
		blk := &types.Block{}
		if err := blk.Deserialization(src); err != nil {
			k := g.KindOf(err)
			kind := "blk-rej-" + k
			if k == "invalid" {
				m := err.Error()
				switch {
				case strings.Contains(m, "duplicated"):
					kind += ":duplicate-tx"
				case strings.Contains(m, "mismatched"):
					kind += ":root-mismatch"
				default:
					kind += ":other"
				}
			}
			return hx.Result{Out: "reject:" + k, Kind: kind, Key: line}
		}
		pos := int(src.Pos())
		var ths []string
		var hs []common.Uint256
		for _, t := range blk.Transactions {
			h := t.Hash()
			hs = append(hs, h)
			ths = append(ths, hex.EncodeToString(h[:]))
		}
		th := "-"
		if len(ths) > 0 {
			th = strings.Join(ths, ",")
		}
		bh := blk.Hash()
		res := hx.Result{Key: line, Kind: fmt.Sprintf("blk-ok-%dtx", len(ths))}
		if len(ths) > 3 {
			res.Kind = "blk-ok-4+tx"
		}
		res.Out = fmt.Sprintf("ok pos=%d hash=%s re=%s height=%d bk=%d sigs=%d txs=%s", pos, hex.EncodeToString(bh[:]), g.HexL(blk.ToArray()),
			blk.Header.Height, len(blk.Header.Bookkeepers), len(blk.Header.SigData), th)
		// predicate
		seen := map[common.Uint256]bool{}
		for _, h := range hs {
			if seen[h] {
				res.Fail, res.Class = "accepted block contains the same transaction twice", "block-duplicate-tx-accepted"
				return res
			}
			seen[h] = true
		}
		if refRoot(hs) != blk.Header.TransactionsRoot {
			res.Fail, res.Class = "accepted block whose transaction root does not match its transactions", "block-root-mismatch-accepted"
			return res
		}
		if res.Fail, res.Class = headerPredicate(blk.Header, bs[:pos], bs); res.Fail != "" {
			return res
		}
		if !bytes.Equal(blk.ToArray(), bs[:pos]) {
			res.Class = reencodeClass(bs)
			res.Fail = "block re-encoding differs from the consumed bytes"
			res.Kind += "-reencode-differs"
		}
		return res
	}
	return hx.Result{Out: "bad-op"}
}

// duplicate-last pairing tree, written recursively and with fresh buffers (no aliasing)
func refRoot(hs []common.Uint256) common.Uint256 {
	if len(hs) == 0 {
		return common.Uint256{}
	}
	if len(hs) == 1 {
		return hs[0]
	}
	var next []common.Uint256
	for i := 0; i < len(hs); i += 2 {
		j := i + 1
		if j == len(hs) {
			j = i
		}
		next = append(next, common.Uint256(g.Sha256d(append(append([]byte{}, hs[i][:]...), hs[j][:]...))))
	}
	return refRoot(next)
}

func corpus() []string {
	var c []string
	// the empty list, a singleton, and the zero leaf (same root as the empty list)
	z := strings.Repeat("00", 32)
	o := "01" + strings.Repeat("00", 31)
	c = append(c, "M -", "M "+z, "M "+o, "M "+o+","+o, "M "+o+","+z+","+o)
	// header with every count form
	r := hx.NewRand(20)
	for _, cnt := range []uint64{0, 1, 1 << 63, 1<<64 - 1, 1<<63 - 1} {
		s := randBlock(r)
		s.headerOnly = true
		s.bkCount = u64p(cnt)
		b, _ := s.encode()
		c = append(c, "H "+g.ToBx(b)+" "+keysOracle(b))
		s.bkCount = nil
		s.sigCount = u64p(cnt)
		b, _ = s.encode()
		c = append(c, "H "+g.ToBx(b)+" "+keysOracle(b))
	}
	// one bookkeeper in each alternative encoding, no transactions
	for form := 0; form <= 4; form++ {
		s := &spec{widenIdx: -1, height: 7}
		s.keyBlobs = [][]byte{encodeKey(g.P256Key(3), form, r)}
		s.sigs = [][]byte{{1, 2, 3}}
		b, _ := s.encode()
		c = append(c, "B "+g.ToBx(b)+" - "+keysOracle(b))
	}
	c = append(c, "B - - -", "H - -", "R -", "X -")
	// CrossChainMsg: counts around the makeslice limit, and a valid message
	for _, cnt := range []uint64{0, 1, (1 << 48) / 24, (1<<48)/24 + 1, 1 << 63, 1<<64 - 1} {
		if cnt > 1<<20 && cnt <= (1<<48)/24 {
			continue
		}
		b := g.PutVU(make([]byte, 37), cnt, 0)
		b = append(b, 1, 0xaa)
		c = append(c, "X "+g.ToBx(b))
	}
	return c
}

func main() {
	hx.Main(hx.Prop{
		ID: "C20",
		Rule: "blocks with 0..9 transactions (invoke/deploy/EIP-155 from the C19 generator) and 0..7 bookkeepers built with types.Header / Block.RebuildMerkleRoot / ToArray, " +
			"mutated: reorder/duplicate (incl. the duplicate-last shapes that keep the root)/drop/replace transactions with stale or recomputed root, each unsigned header field, " +
			"alternative public-key encodings (uncompressed, labelled, trailing bytes), non-keys, hostile list counts (>= 2^63), tx count, widened var-uints, sigdata, byte edits; " +
			"header-only lines through Header.Deserialization and RawHeader.Deserialization; CrossChainMsg.Deserialization on valid messages with hostile/widened counts and byte edits " +
			"(counts that would make the shipped decoder allocate gigabytes are never executed); ComputeMerkleRoot on hash lists with repeats. Non-trivial = every line (all reach the decoders)",
		Gen:    gen,
		Exec:   exec,
		Corpus: corpus(),
		N:      map[string]int{"quick": 6000, "thorough": 120000},
	})
}
