// C11 harness: histories of governance operations on the REAL governance contract (internal/govkit), compared with the
// Lean model after every operation; the C11 predicates (ONT held = Σ TotalStake + Σ PenaltyStake, withdraw bounded by the
// unfrozen positions, nobody ends up with more ONT than deposited, TotalStake = positions) are evaluated on the contract's
// own storage.
package main

import (
	"verif/harness/internal/govkit"
	"verif/harness/internal/hx"
)

func exec(line string) hx.Result {
	tag, ops, ok := govkit.SplitLine(line)
	if !ok {
		return hx.Result{Out: "bad-op", Kind: "bad-line"}
	}
	out, v := govkit.History(tag, ops, false)
	kind, key := v.KindKey()
	return hx.Result{Out: out, Fail: v.Fail, Class: v.Class, Kind: kind, Key: key}
}

func gen(r *hx.Rand, tier string, i int) string {
	return govkit.GenHistory(r, tier, !(i%25 == 7))
}

func main() {
	hx.Main(hx.Prop{
		ID:   "C11",
		Rule: "state-aware random histories (18-40 ops; thorough 25-75) over 7 genesis consensus peers + 3 new nodes x 3 authorizers (+ owners authorizing other peers), five height eras (pre-NEW_VERSION_BLOCK, pre-self-governance with approve/reject, self-governance, new peer cost, all forks), ~4% wrong witnesses and out-of-range amounts; 1 line in 25 starts from the genesis state exactly as InitConfig leaves it (governance address not funded); key = set of op outcomes and features reached",
		Gen:  gen,
		Exec: exec,
		Init: govkit.Init,
		Corpus: []string{
			"G0 ht:9000000",
			"G1 ht:9000000;reg:6:3:6:20000;maxauth:6:3:6:100000;auth:9:9:3,1000;fee:1000000000000;ht:9000001;commit:12;unauth:9:9:3,500;ht:9000002;commit:12;ht:9000003;commit:12;wd:9:9:3,500",
			"G1 ht:17000000;reg:6:3:6:20000;maxauth:6:3:6:100000;auth:9:9:3,1000;auth:10:10:3,5000;ht:17000001;black:12:3;ht:17000002;commit:12;tpen:12:3:13;wd:9:9:3,950;wd:6:6:3,1",
			"G1 ht:17000000;reg:6:3:6:20000;quit:6:3:6;ht:17000001;commit:12;ht:17000002;commit:12;wd:6:6:3,20000;wd:6:6:3,1",
		},
		N: map[string]int{"quick": 500, "thorough": 12000},
	})
}
