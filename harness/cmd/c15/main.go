// C15 harness: the same NeoVM program is executed many times, each time in a fresh engine
// (smartcontract.SmartContract.NewExecuteEngine(...).Invoke(), the path of an invoke transaction), and every
// observable of the runs is compared: success/failure, the returned value, the notifications.
//
//	P op;op;…   ->  sorted set of distinct outcomes, '|'-joined:  ok:<value> n=<notifications> | fault | fault:cycle | fault:size
//
// ops (unknown tokens are skipped on both sides): PUSHM1 PUSH0..PUSH16 PB<hex> PZ<n> (PUSHDATA2, n zero bytes) DUP DROP SWAP OVER ROT NIP TUCK PICK TOALT FROMALT
// DUPALT NEWARRAY NEWSTRUCT NEWMAP APPEND SETITEM PICKITEM REMOVE HASKEY KEYS VALUES ARRAYSIZE SER DESER NOTIFY
// (SER/DESER/NOTIFY = SYSCALL System.Runtime.Serialize / Deserialize / Notify).
package main

import (
	"encoding/json"
	"fmt"
	"math"
	"runtime/debug"
	"sort"
	"strconv"
	"strings"
	"time"

	"github.com/ontio/ontology/common/log"
	"github.com/ontio/ontology/core/types"
	"github.com/ontio/ontology/smartcontract"
	"github.com/ontio/ontology/vm/neovm"
	vmtypes "github.com/ontio/ontology/vm/neovm/types"
	"verif/harness/internal/hx"
)

var plain = map[string]neovm.OpCode{
	"DUP": neovm.DUP, "DROP": neovm.DROP, "SWAP": neovm.SWAP, "OVER": neovm.OVER, "ROT": neovm.ROT, "NIP": neovm.NIP, "TUCK": neovm.TUCK,
	"PICK": neovm.PICK, "TOALT": neovm.TOALTSTACK, "FROMALT": neovm.FROMALTSTACK, "DUPALT": neovm.DUPFROMALTSTACK,
	"NEWARRAY": neovm.NEWARRAY, "NEWSTRUCT": neovm.NEWSTRUCT, "NEWMAP": neovm.NEWMAP, "APPEND": neovm.APPEND, "SETITEM": neovm.SETITEM,
	"PICKITEM": neovm.PICKITEM, "REMOVE": neovm.REMOVE, "HASKEY": neovm.HASKEY, "KEYS": neovm.KEYS, "VALUES": neovm.VALUES,
	"ARRAYSIZE": neovm.ARRAYSIZE,
}
var syscalls = map[string]string{"SER": "System.Runtime.Serialize", "DESER": "System.Runtime.Deserialize", "NOTIFY": "System.Runtime.Notify"}

func assemble(prog string) []byte {
	var code []byte
	for _, t := range strings.Split(prog, ";") {
		switch {
		case t == "PUSHM1":
			code = append(code, byte(neovm.PUSHM1))
		case strings.HasPrefix(t, "PUSH"):
			n, err := strconv.Atoi(t[4:])
			if err != nil || n < 0 || n > 16 || strconv.Itoa(n) != t[4:] {
				continue
			}
			if n == 0 {
				code = append(code, byte(neovm.PUSH0))
			} else {
				code = append(code, byte(neovm.PUSH1)+byte(n-1))
			}
		case strings.HasPrefix(t, "PZ"): // PUSHDATA2 with n zero bytes
			n, err := strconv.Atoi(t[2:])
			if err != nil || n < 0 || n > 65535 || strconv.Itoa(n) != t[2:] {
				continue
			}
			code = append(code, byte(neovm.PUSHDATA2), byte(n), byte(n>>8))
			code = append(code, make([]byte, n)...)
		case strings.HasPrefix(t, "PB"):
			b, err := hx.Unhex(t[2:])
			if err != nil || len(b) < 1 || len(b) > 75 {
				continue
			}
			code = append(code, byte(len(b)))
			code = append(code, b...)
		default:
			if op, ok := plain[t]; ok {
				code = append(code, byte(op))
			} else if name, ok := syscalls[t]; ok {
				code = append(code, byte(neovm.SYSCALL), byte(len(name)))
				code = append(code, name...)
			}
		}
	}
	return code
}

// canonical text of a possibly cyclic value: a container already on the current path is printed as ^k
func canon(v vmtypes.VmValue, path []interface{}, sb *strings.Builder) {
	onPath := func(p interface{}) bool {
		for i := len(path) - 1; i >= 0; i-- {
			if path[i] == p {
				sb.WriteString("^" + strconv.Itoa(len(path)-1-i))
				return true
			}
		}
		return false
	}
	switch v.GetType() {
	case vmtypes.ByteArrayType:
		b, _ := v.AsBytes()
		if len(b) > 64 {
			sb.WriteString(fmt.Sprintf("B%d.%d", len(b), adler(b)))
		} else {
			sb.WriteString("b" + hx.Hex(b))
		}
	case vmtypes.BooleanType:
		if b, _ := v.AsBool(); b {
			sb.WriteString("T")
		} else {
			sb.WriteString("F")
		}
	case vmtypes.IntegerType:
		z, _ := v.AsBigInt()
		sb.WriteString("i" + z.String())
	case vmtypes.ArrayType:
		a, _ := v.AsArrayValue()
		if onPath(a) {
			return
		}
		sb.WriteString("[")
		for i, x := range a.Data {
			if i > 0 {
				sb.WriteString(",")
			}
			canon(x, append(path, a), sb)
		}
		sb.WriteString("]")
	case vmtypes.StructType:
		a, _ := v.AsStructValue()
		if onPath(a) {
			return
		}
		sb.WriteString("{")
		for i, x := range a.Data {
			if i > 0 {
				sb.WriteString(",")
			}
			canon(x, append(path, a), sb)
		}
		sb.WriteString("}")
	case vmtypes.MapType:
		m, _ := v.AsMapValue()
		if onPath(m) {
			return
		}
		ks := make([]string, 0, len(m.Data))
		for k := range m.Data {
			ks = append(ks, k)
		}
		sort.Strings(ks)
		sb.WriteString("<")
		for i, k := range ks {
			if i > 0 {
				sb.WriteString(",")
			}
			kv := m.Data[k]
			canon(kv[0], append(path, m), sb)
			sb.WriteString(":")
			canon(kv[1], append(path, m), sb)
		}
		sb.WriteString(">")
	default:
		sb.WriteString("?")
	}
}

func adler(b []byte) uint32 {
	var a, s uint32 = 1, 0
	for _, x := range b {
		a = (a + uint32(x)) % 65521
		s = (s + a) % 65521
	}
	return s<<16 | a
}

// one run in a fresh engine: (outcome compared with the model, full observation compared across runs)
func runOnce(code []byte) (string, string) {
	config := &smartcontract.Config{Time: 10, Height: math.MaxUint32 - 1, Tx: &types.Transaction{}}
	sc := smartcontract.SmartContract{Config: config, Gas: 1 << 60, CacheDB: nil}
	engine, err := sc.NewExecuteEngine(code, types.InvokeNeo)
	if err != nil {
		return "fault:engine", "fault:engine"
	}
	res, err := engine.Invoke()
	if err != nil {
		s := err.Error()
		switch {
		case strings.Contains(s, "circular"):
			return "fault:cycle", "fault:cycle"
		case strings.Contains(s, "over the uplimit"):
			return "fault:size", "fault:size"
		}
		return "fault", "fault"
	}
	var sb strings.Builder
	sb.WriteString("ok:")
	if res == nil {
		sb.WriteString("nil")
	} else if v, ok := res.(*vmtypes.VmValue); ok && v != nil {
		canon(*v, nil, &sb)
	} else {
		sb.WriteString("nil")
	}
	sb.WriteString(" n=" + strconv.Itoa(len(sc.Notifications)))
	out := sb.String()
	var states []interface{}
	for _, n := range sc.Notifications {
		states = append(states, n.States)
	}
	js, _ := json.Marshal(states)
	return out, out + " notes=" + string(js) + fmt.Sprintf(" gas=%d", sc.Gas)
}

func exec(line string) hx.Result {
	f := strings.Fields(line)
	if len(f) != 2 || f[0] != "P" {
		return hx.Result{Out: "bad-op"}
	}
	code := assemble(f[1])
	outs, obs := map[string]bool{}, map[string]bool{}
	t0 := time.Now()
	runs := 0
	for i := 0; i < 48; i++ {
		o, full := runOnce(code)
		outs[o] = true
		obs[full] = true
		runs++
		if i >= 7 && time.Since(t0) > 400*time.Millisecond { // an unrolled cycle writes 1 MB per Serialize
			break
		}
	}
	ks := make([]string, 0, len(outs))
	for k := range outs {
		ks = append(ks, k)
	}
	sort.Strings(ks)
	res := hx.Result{Out: strings.Join(ks, "|"), Key: line}
	kind := "det"
	switch {
	case len(obs) > 1:
		kind = "nondet"
	}
	first := ks[0]
	if i := strings.IndexAny(first, ": "); i > 0 {
		first = first[:i]
	}
	flags := ""
	for _, t := range []string{"NEWMAP", "SER", "KEYS", "VALUES", "DESER", "NOTIFY"} {
		if strings.Contains(f[1], t) {
			flags += "+" + strings.ToLower(t[:3])
		}
	}
	res.Kind = kind + "-" + strings.Join(kindsOf(ks), "|") + flags
	if len(obs) > 1 {
		res.Fail = fmt.Sprintf("%d runs of the same program in fresh engines gave %d different observations: %s", runs, len(obs), trunc(strings.Join(ks, " | "), 160))
		if len(outs) == 2 && outs["fault:cycle"] && strings.Contains(f[1], "NEWMAP") && strings.Contains(f[1], "SER") {
			res.Class = "map-branch-order"
		} else {
			res.Class = "exec-nondeterministic"
		}
	}
	return res
}

func kindsOf(ks []string) []string {
	var out []string
	for _, k := range ks {
		if i := strings.IndexAny(k, ": "); i > 0 && strings.HasPrefix(k, "ok") {
			k = "ok"
		}
		out = append(out, k)
	}
	return out
}

func trunc(s string, n int) string {
	if len(s) > n {
		return s[:n] + "…"
	}
	return s
}

// ---------------------------------------------------------------- generator

type gctx struct {
	r     *hx.Rand
	ops   []string
	h     int   // static stack height
	conts []int // stack positions of the enclosing containers under construction
}

func (g *gctx) emit(op string, delta int) { g.ops = append(g.ops, op); g.h += delta }

func (g *gctx) pushInt(n int) {
	if n < 0 {
		g.emit("PUSHM1", 1)
	} else {
		g.emit("PUSH"+strconv.Itoa(n), 1)
	}
}

func (g *gctx) leaf() {
	r := g.r
	switch r.Intn(6) {
	case 0, 1:
		g.pushInt(r.Intn(18) - 1)
	case 2:
		g.emit("PB"+hx.Hex(r.Bytes(1+r.Intn(4))), 1)
	case 3:
		g.emit("PB"+hx.Hex([]byte{byte(r.Intn(3))}), 1)
	case 4:
		g.emit("PB"+hx.Hex(r.Bytes(40+r.Intn(35))), 1)
	default:
		g.pushInt(r.Intn(3))
	}
}

func (g *gctx) key(i int) { g.keyP(i, 85) }

func (g *gctx) keyP(i int, p int) {
	keys := []string{"PUSH0", "PUSH1", "PB02", "PB0102", "PBff", "PUSH2", "PB01", "PUSH16", "PB00"}
	if g.r.Chance(p) {
		g.emit(keys[i%len(keys)], 1)
	} else {
		g.emit(keys[g.r.Intn(len(keys))], 1)
	}
}

// nest: an expression leaving one value: d containers nested through their first element, innermost holds `inner` (or is empty)
func (g *gctx) nest(d int, inner func()) {
	if d == 0 {
		if inner != nil {
			inner()
		} else {
			g.leaf()
		}
		return
	}
	if d == 1 && inner == nil && g.r.Chance(50) {
		g.pushInt(0)
		g.emit([]string{"NEWARRAY", "NEWSTRUCT"}[g.r.Intn(2)], 0)
		return
	}
	g.pushInt(0)
	g.emit([]string{"NEWARRAY", "NEWARRAY", "NEWSTRUCT"}[g.r.Intn(3)], 0)
	g.emit("DUP", 1)
	g.nest(d-1, inner)
	g.emit("APPEND", -2)
}

// value: a random expression leaving one value on the stack; may refer to enclosing containers (cycles)
func (g *gctx) value(depth int) {
	r := g.r
	c := r.Intn(100)
	switch {
	case depth <= 0 || c < 35:
		g.leaf()
	case c < 41 && len(g.conts) > 0: // reference to an enclosing container: PICK
		pos := g.conts[r.Intn(len(g.conts))]
		g.pushInt(g.h - 1 - pos)
		g.emit("PICK", 0)
	case c < 65: // array / struct with some elements
		g.pushInt(0)
		g.emit([]string{"NEWARRAY", "NEWARRAY", "NEWSTRUCT"}[r.Intn(3)], 0)
		me := g.h - 1
		n := r.Intn(4)
		for i := 0; i < n; i++ {
			g.emit("DUP", 1)
			g.conts = append(g.conts, me)
			if i == 0 && n > 1 && !r.Chance(5) {
				g.emit("PZ"+strconv.Itoa(8192<<uint(r.Intn(3))), 1)
				g.conts = g.conts[:len(g.conts)-1]
				g.emit("APPEND", -2)
				continue
			}
			g.value(depth - 1)
			g.conts = g.conts[:len(g.conts)-1]
			g.emit("APPEND", -2)
		}
	case c < 90: // map
		g.mapExpr(depth, -1)
	default:
		g.nest(8+r.Intn(5), nil)
	}
}

// mapExpr: a map with 1..4 entries; special = kind of the odd entry (-1 random, 0 none, 1 cycle to the map, 2 deep chain, 3 cycle through an array)
func (g *gctx) mapExpr(depth int, special int) {
	r := g.r
	g.emit("NEWMAP", 1)
	me := g.h - 1
	n := 1 + r.Intn(4)
	if special > 0 && n < 2 {
		n = 2
	}
	if special < 0 {
		special = []int{0, 0, 1, 2, 3}[r.Intn(5)]
	}
	odd := 1 + r.Intn(n)
	if n > 1 {
		odd = 1 + r.Intn(n-1)
	}
	if r.Chance(3) {
		odd = 0
	}
	// a large value under the smallest key is written before every other entry in each round of an unrolled cycle
	fatFirst := n >= 2 && odd%n != 0 && ((special == 1 || special == 3) && !r.Chance(4) || r.Chance(50))
	for i := 0; i < n; i++ {
		g.emit("DUP", 1)
		if fatFirst {
			g.keyP(i, 100)
		} else {
			g.key(i)
		}
		g.conts = append(g.conts, me)
		if i == odd%n && special > 0 {
			switch special {
			case 1:
				g.pushInt(g.h - 1 - me)
				g.emit("PICK", 0)
			case 2:
				g.nest(9+r.Intn(3), nil)
			default:
				g.nest(1+r.Intn(2), func() { g.pushInt(g.h - 1 - me); g.emit("PICK", 0) })
			}
		} else if i == 0 && fatFirst {
			g.emit("PZ"+strconv.Itoa(8192<<uint(r.Intn(3))), 1) // written before the cyclic entry in every round of the unrolling
		} else if r.Chance(70) {
			g.leaf()
		} else {
			g.value(depth - 1)
		}
		g.conts = g.conts[:len(g.conts)-1]
		g.emit("SETITEM", -3)
	}
}

func gen(r *hx.Rand, tier string, i int) string {
	g := &gctx{r: r}
	kind := byte('?') // what is on top of the stack: m map, a array/struct, b bytes, ? unknown
	switch r.Intn(10) {
	case 0, 1, 2, 3: // map with entries of different depth / cyclicity, possibly wrapped, then serialized
		wrap := r.Intn(3)
		if wrap > 0 {
			g.nest(wrap, func() { g.mapExpr(2, 1+r.Intn(3)) })
			kind = 'a'
		} else {
			g.mapExpr(2, 1+r.Intn(3))
			kind = 'm'
		}
	case 4, 5:
		g.mapExpr(3, -1)
		kind = 'm'
	default:
		g.value(3)
	}
	// tail: what is observed (mostly type-correct; 15% arbitrary)
	for k := 0; k < 1+r.Intn(3); k++ {
		c := r.Intn(14)
		if !r.Chance(15) {
			switch kind {
			case 'm':
				c = []int{0, 0, 0, 5, 6, 7, 10, 11, 13, 13}[r.Intn(10)]
			case 'a':
				c = []int{0, 0, 0, 5, 8, 12}[r.Intn(6)]
			case 'b':
				c = []int{14, 14, 8, 12}[r.Intn(4)]
			}
		}
		switch c {
		case 0, 1, 2, 3, 4:
			g.emit("SER", 0)
			kind = 'b'
		case 5:
			g.emit("DUP", 1)
			g.emit("SER", 0)
			g.emit("DROP", -1)
		case 6:
			g.emit("KEYS", 0)
			kind = 'a'
		case 7:
			g.emit("VALUES", 0)
			kind = 'a'
		case 8:
			g.emit("DUP", 1)
			g.emit("NOTIFY", -1)
		case 9:
			g.emit("SER", 0)
			g.emit("DESER", 0)
			kind = '?'
		case 10:
			g.emit("DUP", 1)
			g.key(r.Intn(5))
			g.emit("HASKEY", -1)
			g.emit("DROP", -1)
		case 11:
			g.emit("DUP", 1)
			g.key(r.Intn(5))
			if r.Chance(50) {
				g.emit("REMOVE", -2)
			} else {
				g.emit("PICKITEM", -1)
				g.emit("DROP", -1)
			}
		case 12:
			g.emit([]string{"DUP", "SWAP", "OVER", "ROT", "NIP", "TUCK", "TOALT", "FROMALT", "DUPALT", "ARRAYSIZE", "DROP"}[r.Intn(11)], 0)
			kind = '?'
		case 14:
			g.emit("DESER", 0)
			kind = '?'
		default:
			g.emit("DUP", 1)
			g.emit("VALUES", 0)
			g.emit("SER", 0)
			g.emit("DROP", -1)
		}
	}
	ops := g.ops
	if r.Chance(6) && len(ops) > 2 { // damage: drop / duplicate / replace an op
		j := r.Intn(len(ops))
		switch r.Intn(3) {
		case 0:
			ops = append(ops[:j:j], ops[j+1:]...)
		case 1:
			ops = append(ops[:j+1:j+1], ops[j:]...)
		default:
			all := []string{"DUP", "DROP", "SWAP", "OVER", "ROT", "NIP", "TUCK", "PICK", "TOALT", "FROMALT", "DUPALT", "NEWARRAY", "NEWSTRUCT", "NEWMAP", "APPEND", "SETITEM", "PICKITEM", "REMOVE", "HASKEY", "KEYS", "VALUES", "ARRAYSIZE", "SER", "DESER", "NOTIFY", "PUSH3", "PBffffffffffffffffff"}
			ops[j] = all[r.Intn(len(all))]
		}
	}
	return "P " + strings.Join(ops, ";")
}

func chain(d int) string { // d nested arrays through element 0, innermost empty
	s := "PUSH0;NEWARRAY"
	for i := 1; i < d; i++ {
		s = "PUSH0;NEWARRAY;DUP;" + s + ";APPEND"
	}
	return s
}

func main() {
	hx.Main(hx.Prop{
		ID:      "C15",
		Rule:    "NeoVM programs (27 opcodes/syscalls) generated from expression templates: maps with 1-4 entries of which one is a reference back to the map / a chain of 9-11 nested containers / a cycle through an array, nested values with PICK references to enclosing containers, then SER / KEYS / VALUES / DESER / NOTIFY / HASKEY / REMOVE / stack shuffles; 6% of the programs damaged. Each program runs up to 48 times in fresh engines; non-trivial = distinct program; kinds = deterministic? x outcomes x features",
		Gen:     gen,
		Exec:    exec,
		Isolate: true,
		Timeout: 60 * time.Second,
		Init:    func() { debug.SetMaxStack(1 << 30); log.InitLog(log.MaxLevelLog) }, // no writer = discard (Notify of a map logs at error level)
		Corpus: []string{
			// DESIGN witness: {0: 0, 1: <arrays nested 10 deep>}: from the map the chain is 11 deep
			"P NEWMAP;DUP;PUSH0;PUSH0;SETITEM;DUP;PUSH1;" + chain(10) + ";SETITEM;SER",
			"P NEWMAP;DUP;PUSH0;PUSH0;SETITEM;DUP;PUSH1;" + chain(9) + ";SETITEM;SER",
			"P NEWMAP;DUP;PUSH0;PUSH0;SETITEM;DUP;PUSH1;" + chain(11) + ";SETITEM;SER",
			"P NEWMAP;DUP;PUSH1;" + chain(10) + ";SETITEM;SER",
			// {0: 0, 1: m}
			"P NEWMAP;DUP;PUSH0;PUSH0;SETITEM;DUP;PUSH1;PUSH2;PICK;SETITEM;DUP;PB02;PB" + strings.Repeat("00", 75) + ";SETITEM;SER",
			"P NEWMAP;DUP;PUSH1;OVER;SETITEM;SER",
			"P NEWMAP;DUP;PUSH2;PUSH5;SETITEM;DUP;PB01;PUSH6;SETITEM;DUP;PUSH1;PUSH7;SETITEM;DUP;KEYS;SWAP;VALUES",
			"P NEWMAP;DUP;PUSH2;PUSH5;SETITEM;DUP;PB01;PUSH6;SETITEM;DUP;PUSH0;PUSH7;SETITEM;SER;DESER;KEYS",
			"P PUSH2;NEWARRAY;DUP;PUSH1;OVER;SETITEM;SER",
			"P PUSH2;NEWARRAY;DUP;PUSH1;OVER;SETITEM;NOTIFY",
			"P PUSH2;NEWARRAY;DUP;PUSH1;OVER;SETITEM",
			"P PUSH1;NEWSTRUCT;DUP;DUP;APPEND;DUP;PUSH0;PUSH2;NEWARRAY;SETITEM;SER",
			"P PUSH3;NEWSTRUCT;PUSH0;NEWARRAY;DUP;ROT;APPEND;SER", "P SER", "P NEWMAP;NOTIFY", "P PUSH5;PB0102;PUSH1;PICKITEM", "P PB01;ARRAYSIZE;NEWARRAY;PUSH0;PICKITEM",
			"P NEWMAP;DUP;NEWMAP;PUSH1;SETITEM", "P PUSH0;NEWARRAY;DUP;PUSH0;NEWSTRUCT;APPEND;PUSH0;PICKITEM;PUSH1;APPEND",
		},
		N: map[string]int{"quick": 1500, "thorough": 40000},
	})
}
