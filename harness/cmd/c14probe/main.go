package main

import (
	"fmt"
	"os"
	"runtime/debug"
	"time"

	"github.com/ontio/ontology/common"
	"github.com/ontio/ontology/vm/neovm/types"
)

func main() {
	if len(os.Args) > 2 {
		var n int
		fmt.Sscan(os.Args[2], &n)
		debug.SetMaxStack(n << 20)
	}
	a := types.NewArrayValue()
	a.Append(types.VmValueFromInt64(1))
	av := types.VmValueFromArrayVal(a)
	a.Append(av)
	b, err := av.CircularRefAndDepthDetection()
	fmt.Println("detect a=[1,a]:", b, err)
	t0 := time.Now()
	switch os.Args[1] {
	case "ser":
		sink := common.NewZeroCopySink(nil)
		err = av.Serialize(sink)
		fmt.Println("serialize:", err, sink.Size(), time.Since(t0))
	case "native":
		sink := common.NewZeroCopySink(nil)
		err = av.BuildParamToNative(sink)
		fmt.Println("native:", err, sink.Size(), time.Since(t0))
	}
}
