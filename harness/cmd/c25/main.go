// C25 harness: vm/crossvm_codec EncodeValue / DecodeValue / DeserializeCallParam / DeserializeNotify on generated
// values (nested lists of every type of the grammar), their encodings (valid, truncated, extended, mutated) and
// hostile byte strings (huge counts, deep nesting, unknown tags).
package main

import (
	"bytes"
	"crypto/sha256"
	"fmt"
	"math/big"
	"strconv"
	"strings"

	"github.com/ontio/ontology/common"
	codec "github.com/ontio/ontology/vm/crossvm_codec"
	"verif/harness/internal/hx"
)

// ---- values <-> text ----

func show(v interface{}) string {
	switch t := v.(type) {
	case []byte:
		return "b:" + hx.Hex(t)
	case string:
		return "s:" + hx.Hex([]byte(t))
	case common.Address:
		return "a:" + hx.Hex(t[:])
	case bool:
		return "o:" + hx.B(t)
	case *big.Int:
		return "i:" + t.String()
	case common.Uint256:
		return "h:" + hx.Hex(t[:])
	case []interface{}:
		var s []string
		for _, e := range t {
			s = append(s, show(e))
		}
		return "[" + strings.Join(s, ",") + "]"
	}
	return fmt.Sprintf("?%T", v)
}

// postfix tokens of a value
func toks(v interface{}, out *[]string) {
	if l, ok := v.([]interface{}); ok {
		for _, e := range l {
			toks(e, out)
		}
		*out = append(*out, "L:"+strconv.Itoa(len(l)))
		return
	}
	*out = append(*out, show(v))
}

func build(ts []string) (interface{}, bool) {
	var st []interface{}
	for _, t := range ts {
		p := strings.SplitN(t, ":", 2)
		if len(p) != 2 {
			return nil, false
		}
		switch p[0] {
		case "b":
			st = append(st, hx.MustUnhex(p[1]))
		case "s":
			st = append(st, string(hx.MustUnhex(p[1])))
		case "a":
			var a common.Address
			b := hx.MustUnhex(p[1])
			if len(b) != 20 {
				return nil, false
			}
			copy(a[:], b)
			st = append(st, a)
		case "h":
			var h common.Uint256
			b := hx.MustUnhex(p[1])
			if len(b) != 32 {
				return nil, false
			}
			copy(h[:], b)
			st = append(st, h)
		case "o":
			st = append(st, p[1] == "1")
		case "i":
			x, ok := new(big.Int).SetString(p[1], 10)
			if !ok {
				return nil, false
			}
			st = append(st, x)
		case "L":
			k, err := strconv.Atoi(p[1])
			if err != nil || k > len(st) {
				return nil, false
			}
			l := make([]interface{}, k)
			copy(l, st[len(st)-k:])
			st = append(st[:len(st)-k], l)
		default:
			return nil, false
		}
	}
	if len(st) != 1 {
		return nil, false
	}
	return st[0], true
}

// ---- generators ----

var pow127 = new(big.Int).Lsh(big.NewInt(1), 127)

func genInt(r *hx.Rand) *big.Int {
	switch r.Intn(10) {
	case 0:
		return big.NewInt(int64(r.Intn(5)) - 2)
	case 1: // max / max+1
		x := new(big.Int).Sub(pow127, big.NewInt(1))
		return x.Add(x, big.NewInt(int64(r.Intn(2))))
	case 2: // min / min-1
		x := new(big.Int).Neg(pow127)
		return x.Sub(x, big.NewInt(int64(r.Intn(2))))
	case 3: // around 2^63, 2^64
		x := new(big.Int).Lsh(big.NewInt(1), uint(63+r.Intn(2)))
		x.Add(x, big.NewInt(int64(r.Intn(3))-1))
		if r.Bool() {
			x.Neg(x)
		}
		return x
	case 4: // beyond the range
		x := new(big.Int).SetBytes(r.Bytes(17 + r.Intn(3)))
		if r.Bool() {
			x.Neg(x)
		}
		return x
	default:
		x := new(big.Int).SetBytes(r.Bytes(1 + r.Intn(16)))
		x.Rsh(x, uint(r.Intn(8)))
		if x.Cmp(pow127) >= 0 {
			x.Rsh(x, 1)
		}
		if r.Bool() {
			x.Neg(x)
		}
		return x
	}
}

func genLen(r *hx.Rand) int {
	switch r.Intn(8) {
	case 0:
		return 0
	case 1:
		return 0xfc + r.Intn(6)
	case 2:
		if r.Chance(5) {
			return []int{1023, 1024, 1025}[r.Intn(3)]
		}
		return 1
	default:
		return r.Intn(24)
	}
}

func genVal(r *hx.Rand, depth int, inRange bool) interface{} {
	k := r.Intn(8)
	if depth <= 0 && k >= 6 {
		k = r.Intn(6)
	}
	switch k {
	case 0:
		return r.Bytes(genLen(r))
	case 1:
		return string(r.Bytes(genLen(r)))
	case 2:
		var a common.Address
		copy(a[:], r.Bytes(20))
		return a
	case 3:
		return r.Bool()
	case 4:
		for {
			x := genInt(r)
			if !inRange || (x.Cmp(pow127) < 0 && x.Cmp(new(big.Int).Neg(pow127)) >= 0) {
				return x
			}
		}
	case 5:
		var h common.Uint256
		copy(h[:], r.Bytes(32))
		return h
	default:
		n := r.Intn(5)
		if r.Chance(10) {
			n = 0
		}
		l := make([]interface{}, 0, n)
		for i := 0; i < n; i++ {
			l = append(l, genVal(r, depth-1, inRange))
		}
		return l
	}
}

// lists around MAX_PARAM_LENGTH (1024) and well beyond, cheap elements; top level or nested in a small list
var bigLens = []int{1023, 1024, 1025, 1500, 4096}

func cheap(r *hx.Rand, k int) interface{} {
	switch k {
	case 0:
		return r.Bool()
	case 1:
		return []byte{}
	case 2:
		return big.NewInt(int64(r.Intn(7)) - 3)
	default:
		return []interface{}{}
	}
}

func bigList(r *hx.Rand, n int, nested int) interface{} {
	k := r.Intn(4)
	if n > 1200 {
		k = 0 // keep the buffer short: the model driver's reads are linear in the offset
	}
	l := make([]interface{}, n)
	for i := range l {
		l[i] = cheap(r, k)
	}
	var v interface{} = l
	for d := 0; d < nested; d++ {
		switch r.Intn(3) {
		case 0:
			v = []interface{}{v}
		case 1:
			v = []interface{}{r.Bool(), v, "tail"}
		default:
			v = []interface{}{[]byte{1}, v}
		}
	}
	return v
}

// generated lines stay near the threshold (the model driver reads through linked lists: cost grows with length²);
// 1500 and 4096 are in the corpus
func genBig(r *hx.Rand) interface{} {
	n := []int{1023, 1024, 1025, 1025, 1026, 1100}[r.Intn(6)]
	return bigList(r, n, r.Intn(3))
}

func hasBig(v interface{}) bool {
	if l, ok := v.([]interface{}); ok {
		if len(l) >= 1000 {
			return true
		}
		for _, e := range l {
			if hasBig(e) {
				return true
			}
		}
	}
	return false
}

func nest(depth int, inner []byte) []byte {
	var b []byte
	for i := 0; i < depth; i++ {
		b = append(b, 0x10, 1, 0, 0, 0)
	}
	return append(b, inner...)
}

func genBytes(r *hx.Rand) []byte {
	if r.Chance(1) { // long lists: valid, count off by one, truncated
		e, _ := codec.EncodeValue(genBig(r))
		switch r.Intn(4) {
		case 0:
			if p := bytes.Index(e, []byte{0x10, 0xff, 0x03}); p >= 0 {
				e[p+1]++
			} else if p := bytes.Index(e, []byte{0x10, 0x00, 0x04}); p >= 0 {
				e[p+1]++
			} else if p := bytes.Index(e, []byte{0x10, 0x01, 0x04}); p >= 0 {
				e[p+1]--
			}
		case 1:
			e = e[:len(e)-1-r.Intn(3)]
		}
		return e
	}
	switch r.Intn(12) {
	case 0, 1, 2: // valid encoding, maybe with a tail
		e, _ := codec.EncodeValue(genVal(r, 4, true))
		if r.Chance(30) {
			e = append(e, r.Bytes(1+r.Intn(4))...)
		}
		return e
	case 3: // truncated
		e, _ := codec.EncodeValue(genVal(r, 4, true))
		return e[:r.Intn(len(e)+1)]
	case 4, 5: // one byte changed
		e, _ := codec.EncodeValue(genVal(r, 4, true))
		p := r.Intn(len(e))
		switch r.Intn(3) {
		case 0:
			e[p] = byte(r.U64())
		case 1:
			e[p] ^= 1 << uint(r.Intn(8))
		default:
			e[p] = []byte{0, 1, 2, 3, 4, 5, 6, 0x10, 0x11, 0xff}[r.Intn(10)]
		}
		return e
	case 6: // hostile counts
		cnt := []uint32{0, 1, 2, 0xff, 0x100, 0xffff, 0x10000, 0x7fffffff, 0x80000000, 0xffffffff}[r.Intn(10)]
		b := []byte{[]byte{0x10, 0x00, 0x01}[r.Intn(3)], byte(cnt), byte(cnt >> 8), byte(cnt >> 16), byte(cnt >> 24)}
		for i := 0; i < r.Intn(4); i++ {
			e, _ := codec.EncodeValue(genVal(r, 1, true))
			b = append(b, e...)
		}
		return b
	case 7: // deep nesting
		inner := [][]byte{{3, 1}, {3, 2}, {}, {0x10}, {0x10, 0, 0, 0, 0}, {7}}[r.Intn(6)]
		return nest(1+r.Intn(60), inner)
	case 8: // booleans / fixed-size items cut short or irregular
		switch r.Intn(4) {
		case 0:
			return []byte{3, byte(r.Intn(4))}
		case 1:
			return append([]byte{2}, r.Bytes(18+r.Intn(4))...)
		case 2:
			return append([]byte{4}, r.Bytes(14+r.Intn(4))...)
		default:
			return append([]byte{5}, r.Bytes(30+r.Intn(4))...)
		}
	case 9: // list of lists with wrong inner counts
		b := []byte{0x10, byte(r.Intn(4)), 0, 0, 0}
		for i := 0; i < r.Intn(4); i++ {
			b = append(b, 0x10, byte(r.Intn(3)), 0, 0, 0)
			for j := 0; j < r.Intn(3); j++ {
				b = append(b, 3, byte(r.Intn(2)))
			}
		}
		return b
	default:
		return r.Bytes(r.Intn(30))
	}
}

func chk4(data []byte) []byte {
	a := sha256.Sum256(data)
	b := sha256.Sum256(a[:])
	return b[:4]
}

func addrTab(v interface{}, out *[]string) {
	switch t := v.(type) {
	case common.Address:
		*out = append(*out, hx.Hex(t[:])+":"+hx.Hex(chk4(append([]byte{23}, t[:]...))))
	case []interface{}:
		for _, e := range t {
			addrTab(e, out)
		}
	}
}

func nLine(input []byte) string {
	tab := "-"
	if len(input) >= 4 {
		if v, err := codec.DecodeValue(common.NewZeroCopySource(input[4:])); err == nil {
			var t []string
			addrTab(v, &t)
			if len(t) > 0 {
				tab = strings.Join(t, ",")
			}
		}
	}
	return "N " + hx.Hex(input) + " " + tab
}

func gen(r *hx.Rand, tier string, i int) string {
	switch r.Intn(10) {
	case 0, 1, 2:
		var t []string
		if r.Chance(2) {
			toks(genBig(r), &t)
		} else {
			toks(genVal(r, 5, r.Chance(80)), &t)
		}
		return "E " + strings.Join(t, " ")
	case 3:
		pre := []byte{0}
		if r.Chance(15) {
			pre = [][]byte{{}, {1}, {0, 0}, {0xff}}[r.Intn(4)]
		}
		return "C " + hx.Hex(append(pre, genBytes(r)...))
	case 4:
		pre := []byte("evt\x00")
		if r.Chance(15) {
			pre = [][]byte{{}, []byte("evt"), []byte("evt\x01"), []byte("Evt\x00"), []byte("ev")}[r.Intn(5)]
		}
		return nLine(append(pre, genBytes(r)...))
	default:
		return "D " + hx.Hex(genBytes(r))
	}
}

// ---- execution ----

func errKind(err error) string {
	switch err {
	case codec.ERROR_PARAM_FORMAT:
		return "err:format"
	case codec.ERROR_PARAM_NOT_SUPPORTED_TYPE:
		return "err:type"
	}
	return "err:other"
}

func kindOf(v interface{}) string {
	switch t := v.(type) {
	case []byte:
		return "bytes"
	case string:
		return "str"
	case common.Address:
		return "addr"
	case bool:
		return "bool"
	case *big.Int:
		return "int"
	case common.Uint256:
		return "h256"
	case []interface{}:
		d := 1
		for _, e := range t {
			if k := kindOf(e); strings.HasPrefix(k, "list") {
				n, _ := strconv.Atoi(k[4:])
				if n+1 > d {
					d = n + 1
				}
			}
		}
		if d > 4 {
			d = 4
		}
		return "list" + strconv.Itoa(d)
	}
	return "?"
}

// type of the first position where two values differ
func firstDiff(a, b interface{}) string {
	la, oka := a.([]interface{})
	lb, okb := b.([]interface{})
	if oka && okb {
		if len(la) != len(lb) {
			return "list-length"
		}
		for i := range la {
			if d := firstDiff(la[i], lb[i]); d != "" {
				return d
			}
		}
		return ""
	}
	if show(a) != show(b) {
		return kindOf(a)
	}
	return ""
}

func showStr(v interface{}) string {
	switch t := v.(type) {
	case string:
		return "s:" + hx.Hex([]byte(t))
	case bool:
		return "o:" + hx.B(t)
	case []interface{}:
		var s []string
		for _, e := range t {
			s = append(s, showStr(e))
		}
		return "[" + strings.Join(s, ",") + "]"
	}
	return fmt.Sprintf("?%T", v)
}

func exec(line string) hx.Result {
	f := strings.Fields(line)
	if len(f) < 2 {
		return hx.Result{Out: "bad-op"}
	}
	switch f[0] {
	case "E":
		v, ok := build(f[1:])
		if !ok {
			return hx.Result{Out: "bad-op"}
		}
		enc, err := codec.EncodeValue(v)
		if err != nil {
			return hx.Result{Out: "err:range", Kind: "E:err:range", Key: line}
		}
		res := hx.Result{Out: hx.Hex(enc), Kind: "E:" + kindOf(v), Key: line}
		if hasBig(v) {
			res.Kind = "E:list>=1000"
		}
		src := common.NewZeroCopySource(enc)
		back, err := codec.DecodeValue(src)
		if err != nil {
			res.Fail, res.Class = "own encoding rejected: "+errKind(err), "crossvm-roundtrip-rejected-"+kindOf(v)
		} else if d := firstDiff(v, back); d != "" {
			sb := show(back)
			if len(sb) > 200 {
				sb = sb[:200] + "…"
			}
			res.Fail, res.Class = "decodes to "+sb, "crossvm-roundtrip-differs-at-"+d
		} else if src.Len() != 0 {
			res.Fail, res.Class = "encoding not fully consumed", "crossvm-roundtrip-leftover"
		}
		return res
	case "D":
		bs := hx.MustUnhex(f[1])
		src := common.NewZeroCopySource(bs)
		v, err := codec.DecodeValue(src)
		if err != nil {
			k := errKind(err)
			return hx.Result{Out: k, Kind: "D:" + k, Key: line}
		}
		res := hx.Result{Out: show(v) + fmt.Sprintf(" off=%d", src.Pos()), Kind: "D:" + kindOf(v), Key: line}
		if hasBig(v) {
			res.Kind = "D:list>=1000"
		}
		// what was accepted is exactly what the encoder writes for the decoded value
		re, err := codec.EncodeValue(v)
		if err != nil {
			res.Fail, res.Class = "decoded value cannot be encoded", "crossvm-decoded-unencodable-"+kindOf(v)
		} else if src.Pos() > uint64(len(bs)) || !bytes.Equal(re, bs[:src.Pos()]) {
			res.Fail, res.Class = "accepted bytes are not the encoding of the decoded value", "crossvm-accepts-noncanonical-"+kindOf(v)
		}
		return res
	case "C":
		v, err := codec.DeserializeCallParam(hx.MustUnhex(f[1]))
		if err != nil {
			k := errKind(err)
			return hx.Result{Out: k, Kind: "C:" + k, Key: line}
		}
		return hx.Result{Out: show(v), Kind: "C:ok", Key: line}
	case "N":
		in := hx.MustUnhex(f[1])
		v := codec.DeserializeNotify(in)
		if b, ok := v.([]byte); ok {
			if !bytes.Equal(b, in) {
				return hx.Result{Out: "raw?", Fail: "notify fallback is not the input", Class: "notify-fallback", Kind: "N:raw"}
			}
			return hx.Result{Out: "raw", Kind: "N:raw", Key: line}
		}
		return hx.Result{Out: showStr(v), Kind: "N:ok", Key: line}
	}
	return hx.Result{Out: "bad-op"}
}

func eLine(v interface{}) string {
	var t []string
	toks(v, &t)
	return "E " + strings.Join(t, " ")
}

func dLineOf(v interface{}) string {
	e, _ := codec.EncodeValue(v)
	return "D " + hx.Hex(e)
}

func bigCorpus() []string {
	var out []string
	for i, n := range []int{1023, 1024, 1025, 1500, 4096} {
		r := hx.NewRand(uint64(77 + i))
		top, nested, deep := bigList(r, n, 0), bigList(r, n, 1), bigList(r, n, 2)
		out = append(out, eLine(top), eLine(nested), dLineOf(top), dLineOf(nested))
		if n <= 1025 {
			e, _ := codec.EncodeValue(nested)
			out = append(out, eLine(deep), dLineOf(deep), "C "+hx.Hex(append([]byte{0}, e...)), nLine(append([]byte("evt\x00"), e...)))
		}
	}
	for _, n := range []int{1023, 1024, 1025, 4096, 65535, 65536} {
		b := make([]byte, n)
		out = append(out, eLine(b), eLine(string(b)), dLineOf([]interface{}{b, true}))
	}
	return out
}

func main() {
	hx.Main(hx.Prop{
		ID: "C25",
		Rule: "E: random values (all 7 kinds, nesting <= 5, integers at the i128 boundaries and beyond, lengths 0/0xfc..0x101) encoded by the real EncodeValue and decoded back; " +
			"D/C/N: real decoders on valid encodings (plain, with tail, truncated, one byte changed), hostile counts (0xffffffff...), nesting up to 60 (3000 in the corpus), " +
			"irregular booleans, short fixed-size items, random bytes, wrong prefixes; lists of 1023/1024/1025/1500/4096 cheap elements (MAX_PARAM_LENGTH = 1024 and beyond), top level and nested up to 2 deep, " +
			"valid / count off by one / truncated, in the corpus (E, D, C, N) and in ~3% of generated lines; byte arrays and strings of 1023..65536 bytes. Non-trivial = distinct line; kinds = op:outcome/value kind (listN = nesting depth)",
		Gen:  gen,
		Exec: exec,
		Corpus: append(bigCorpus(), []string{
			"D -", "D 10", "D 1000000000", "D 10ffffffff", "D 10ffffffff0301", "D 0302", "D 0300", "D 0301ff", "D 06", "D ff",
			"D 00ffffffff", "D 0000000000", "D 0001000000", "D 000100000041", "D 01020000004142",
			"D 04ffffffffffffffffffffffffffffff7f", "D 0400000000000000000000000000000080", "D 04ffffffffffffffffffffffffffffffff",
			"D " + hx.Hex(nest(3000, []byte{3, 1})), "D " + hx.Hex(nest(3000, nil)),
			"E L:0", "E L:0 L:1 L:1 L:1", "E b:- s:- L:2", "E i:170141183460469231731687303715884105727", "E i:170141183460469231731687303715884105728",
			"E i:-170141183460469231731687303715884105728", "E i:-170141183460469231731687303715884105729", "E o:1 i:-1 L:2 i:340282366920938463463374607431768211456 L:2",
			"C -", "C 00", "C 01", "C 000301", "C 010301", nLine([]byte("evt\x00\x03\x01")), nLine([]byte("evt\x01\x03\x01")), nLine([]byte("evt")),
			nLine(append([]byte("evt\x00\x10\x02\x00\x00\x00\x02"), append(make([]byte, 20), 4, 0xff, 0xff, 0xff, 0xff, 0xff, 0xff, 0xff, 0xff, 0xff, 0xff, 0xff, 0xff, 0xff, 0xff, 0xff, 0xff)...)),
		}...),
		N: map[string]int{"quick": 20000, "thorough": 400000},
	})
}
