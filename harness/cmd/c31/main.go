// C31 harness: one history of consensus messages per line, delivered to a REAL vbft.BlockPool (verif hook) the way
// Server.run/processMsgEvent deliver a message of the current height (msg.Verify with the p2p sender's key, then the
// pool intake); `cd` asks the real commitDone. Predicate, evaluated with the real keys on the pool's own content: when
// commitDone declares (p, _, true), at least N-(N-1)/3 distinct consensus peers have a genuine signature for p in the
// pool. Line format: see lean/OntVerif/OntVerif/Driver/C31.lean.
package main

import (
	"fmt"
	"sort"
	"strconv"
	"strings"

	"verif/harness/internal/c31pool"
	"verif/harness/internal/hx"
)

var world *c31pool.World

// hx keeps only the first 200 failures of a run; to keep every failure CLASS visible in the summary, each class is
// reported as a predicate failure at most perClassCap times per run (later ones still show in the `kinds` histogram).
var classSeen = map[string]int{}

const perClassCap = 15

func initWorld() { world = c31pool.NewWorld(7) }

func pu32(s string) (uint32, bool) {
	v, err := strconv.ParseUint(s, 10, 32)
	return uint32(v), err == nil && (len(s) == 1 || s[0] != '0') && s[0] != '+'
}
func pu64(s string) (uint64, bool) {
	v, err := strconv.ParseUint(s, 10, 63)
	return v, err == nil && (len(s) == 1 || s[0] != '0') && s[0] != '+'
}
func pbool(s string) (bool, bool) { return s == "1", s == "0" || s == "1" }

func parseCsv(s string) ([]uint32, bool) {
	if s == "-" {
		return nil, true
	}
	var out []uint32
	for _, f := range strings.Split(s, ",") {
		v, ok := pu32(f)
		if !ok {
			return nil, false
		}
		out = append(out, v)
	}
	return out, true
}

func parseEList(s string) ([]c31pool.ESigEntry, bool) {
	if s == "-" {
		return nil, true
	}
	var out []c31pool.ESigEntry
	seen := map[uint32]bool{}
	for _, kv := range strings.Split(s, "+") {
		p := strings.Split(kv, "=")
		if len(p) != 2 {
			return nil, false
		}
		k, ok := pu32(p[0])
		if !ok || seen[k] || !world.ParseSig(p[1]) {
			return nil, false
		}
		seen[k] = true
		out = append(out, c31pool.ESigEntry{Endorser: k, Sig: p[1]})
	}
	return out, true
}

const bad = "bad-op"

func exec(line string) hx.Result {
	f := strings.Fields(line)
	if len(f) != 5 || f[0] != "P" {
		return hx.Result{Out: bad}
	}
	N, ok1 := pu32(f[1])
	C, ok2 := pu32(f[2])
	ends, ok3 := parseCsv(f[3])
	if !ok1 || !ok2 || !ok3 || N > 7 {
		return hx.Result{Out: bad}
	}
	node := world.NewNode(0, N, C, ends)
	var outs []string
	res := hx.Result{Key: line}
	kind := "nocd"
	flags := map[string]bool{}
	var ops []string
	if f[4] != "-" {
		ops = strings.Split(f[4], ";")
	}
	for _, op := range ops {
		a := strings.Split(op, ",")
		switch {
		case a[0] == "p" && len(a) == 5:
			p, o1 := pu32(a[1])
			ver, o2 := pu64(a[2])
			if !o1 || !o2 || ver > 1 || !world.ParseSig(a[3]) || !world.ParseSig(a[4]) {
				return hx.Result{Out: bad}
			}
			r := node.Proposal(p, ver, a[3], a[4])
			flags[r] = true
			outs = append(outs, r)
		case a[0] == "e" && len(a) == 7:
			s, o1 := pu32(a[1])
			e, o2 := pu32(a[2])
			p, o3 := pu32(a[3])
			h, o4 := pu64(a[4])
			fe, o5 := pbool(a[5])
			if !(o1 && o2 && o3 && o4 && o5) || !world.ParseSig(a[6]) {
				return hx.Result{Out: bad}
			}
			r := node.Endorse(s, c31pool.EndorseMsg{Endorser: e, Proposer: p, Hash: h, FE: fe, Sig: a[6]})
			flags[r] = true
			outs = append(outs, r)
		case a[0] == "c" && len(a) == 9:
			s, o1 := pu32(a[1])
			cm, o2 := pu32(a[2])
			p, o3 := pu32(a[3])
			h, o4 := pu64(a[4])
			fe, o5 := pbool(a[5])
			el, o6 := parseEList(a[8])
			if !(o1 && o2 && o3 && o4 && o5 && o6) || !world.ParseSig(a[6]) || !world.ParseSig(a[7]) {
				return hx.Result{Out: bad}
			}
			r := node.Commit(s, c31pool.CommitMsg{Committer: cm, Proposer: p, Hash: h, FE: fe, Sig: a[6], PSig: a[7], Endorsers: el})
			flags[r] = true
			outs = append(outs, r)
		case (a[0] == "se" || a[0] == "sc") && len(a) == 3:
			p, o1 := pu32(a[1])
			fe, o2 := pbool(a[2])
			if !o1 || !o2 {
				return hx.Result{Out: bad}
			}
			var found bool
			var err error
			if a[0] == "se" {
				found, err = node.SetProposalEndorsed(c31pool.BlkNum, p, fe)
			} else {
				found, err = node.SetProposalCommitted(c31pool.BlkNum, p, fe)
			}
			switch {
			case !found:
				outs = append(outs, "noprop")
			case err != nil:
				outs = append(outs, "err")
			default:
				outs = append(outs, "set")
			}
		case a[0] == "ed" && len(a) == 1:
			p, fe, done := node.EndorseDone(c31pool.BlkNum, C)
			outs = append(outs, c31pool.ShowDone("ed", p, fe, done))
		case a[0] == "cd" && len(a) == 1:
			p, fe, done := node.CommitDone(c31pool.BlkNum, C, N)
			outs = append(outs, c31pool.ShowDone("cd", p, fe, done))
			// is the verdict map-order dependent? (observation only)
			for i := 0; i < 12; i++ {
				p2, fe2, d2 := node.CommitDone(c31pool.BlkNum, C, N)
				if p2 != p || fe2 != fe || d2 != done {
					flags["order-dependent"] = true
				}
			}
			if !done {
				kind = "cd-none"
				break
			}
			au := node.AuditCommit(p)
			way := "sigpath"
			if au.CommitWay {
				way = "commitpath"
			}
			if au.Genuine >= au.Need {
				kind = "cd-" + way + "-quorum"
				if len(au.Bogus) > 0 {
					kind += "+bogus-counted"
				}
			} else {
				kind = "cd-" + way + "-SHORT:" + au.Class()
				classSeen[au.Class()]++
				if res.Fail == "" && classSeen[au.Class()] <= perClassCap {
					res.Class = au.Class()
					res.Fail = fmt.Sprintf("commitDone declared proposer %d with %d of the required %d distinct consensus peers holding a genuine signature for it in the pool (N=%d; counted but not genuine: %v)",
						p, au.Genuine, au.Need, N, au.Bogus)
				}
			}
		default:
			return hx.Result{Out: bad}
		}
	}
	outs = append(outs, node.DumpString())
	res.Out = strings.Join(outs, "|")
	var fl []string
	for k := range flags {
		if k != "ok" {
			fl = append(fl, k)
		}
	}
	sort.Strings(fl)
	res.Kind = kind
	if len(fl) > 0 {
		res.Kind += "+" + strings.Join(fl, "+")
	}
	return res
}

// ---- generator ----

type gen struct {
	r    *hx.Rand
	N, C int
	ops  []string
}

func bh(p, ver int, fe bool) uint64 { return c31pool.BlockHashID(uint64(p), uint64(ver), fe) }
func fb(b bool) string {
	if b {
		return "1"
	}
	return "0"
}

func (g *gen) add(s string) { g.ops = append(g.ops, s) }
func (g *gen) proposal(p, ver int) {
	g.add(fmt.Sprintf("p,%d,%d,%d.%d,%d.%d", p, ver, p, bh(p, ver, false), p, bh(p, ver, true)))
}
func (g *gen) endorse(e, p, ver int, fe bool) {
	h := bh(p, ver, fe)
	g.add(fmt.Sprintf("e,%d,%d,%d,%d,%s,%d.%d", e, e, p, h, fb(fe), e, h))
}

// honest commit of committer c for (p,ver,fe) carrying the genuine endorsements of `ends`
func (g *gen) commit(c, p, ver int, fe bool, ends []int) {
	h := bh(p, ver, fe)
	var el []string
	for _, e := range ends {
		el = append(el, fmt.Sprintf("%d=%d.%d", e, e, h))
	}
	els := "-"
	if len(el) > 0 {
		els = strings.Join(el, "+")
	}
	g.add(fmt.Sprintf("c,%d,%d,%d,%d,%s,%d.%d,%d.%d,%s", c, c, p, h, fb(fe), c, h, p, h, els))
}

func (g *gen) junkSig() string {
	switch g.r.Intn(4) {
	case 0:
		return "j0"
	case 1:
		return "j1"
	case 2: // somebody's real signature over something else
		return fmt.Sprintf("%d.%d", g.r.Intn(g.N), 2*g.r.Intn(20)+1)
	}
	return fmt.Sprintf("%d.%d", g.r.Intn(g.N), bh(g.r.Intn(g.N), g.r.Intn(2), g.r.Bool()))
}

func (g *gen) subset(k int, excl int) []int {
	var pool []int
	for i := 0; i < g.N; i++ {
		if i != excl {
			pool = append(pool, i)
		}
	}
	for i := len(pool) - 1; i > 0; i-- {
		j := g.r.Intn(i + 1)
		pool[i], pool[j] = pool[j], pool[i]
	}
	if k > len(pool) {
		k = len(pool)
	}
	if k < 0 {
		k = 0
	}
	out := append([]int{}, pool[:k]...)
	sort.Ints(out)
	return out
}

func genLine(r *hx.Rand, tier string, i int) string {
	g := &gen{r: r}
	switch r.Intn(10) {
	case 0:
		g.N = 1 + r.Intn(7)
	case 1, 2, 3:
		g.N = 7
	default:
		g.N = 4
	}
	g.C = (g.N - 1) / 3
	q := g.N - (g.N-1)/3
	// endorser list of the participant config
	var ends []string
	for _, e := range g.subset(g.N, -1) {
		if r.Chance(85) {
			ends = append(ends, strconv.Itoa(e))
		}
	}
	if r.Chance(10) {
		ends = append(ends, "9")
	}
	r2 := r.Intn(len(ends) + 1)
	ends = append(ends[r2:], ends[:r2]...)
	endS := "-"
	if len(ends) > 0 {
		endS = strings.Join(ends, ",")
	}
	p := r.Intn(g.N)
	ver := r.Intn(2)
	fe := r.Chance(20)
	if r.Chance(80) {
		g.proposal(p, ver)
	}
	faulty := r.Intn(g.N)
	scen := r.Intn(12)
	switch scen {
	case 0, 1: // honest run: endorsements, then commits carrying them, around the threshold
		es := g.subset(q-2+r.Intn(3), p)
		for _, e := range es {
			g.endorse(e, p, ver, fe)
		}
		if r.Chance(50) {
			g.add("ed")
		}
		for _, c := range g.subset(r.Intn(3), p) {
			g.commit(c, p, ver, fe, es)
			if r.Chance(40) {
				g.add("cd")
			}
		}
	case 2: // signature-count path only: endorsements around q-1, q
		for _, e := range g.subset(q-2+r.Intn(3), p) {
			g.endorse(e, p, ver, false)
		}
	case 3: // forged commit: one faulty peer claims endorsers with junk signatures (DESIGN witness shape)
		h := bh(p, ver, fe)
		var el []string
		for _, e := range g.subset(q-2+r.Intn(2), faulty) {
			el = append(el, fmt.Sprintf("%d=%s", e, g.junkSig()))
		}
		els := "-"
		if len(el) > 0 {
			els = strings.Join(el, "+")
		}
		psig := fmt.Sprintf("%d.%d", p, h)
		if r.Chance(30) {
			psig = g.junkSig()
		}
		g.add(fmt.Sprintf("c,%d,%d,%d,%d,%s,%d.%d,%s,%s", faulty, faulty, p, h, fb(fe), faulty, h, psig, els))
	case 4: // index spoofing: the faulty peer signs with its own key but names other endorsers / committers
		h := bh(p, ver, fe)
		for _, e := range g.subset(q-1+r.Intn(2), -1) {
			if r.Chance(50) {
				g.add(fmt.Sprintf("e,%d,%d,%d,%d,%s,%d.%d", faulty, e, p, h, fb(fe), faulty, h))
			} else {
				g.add(fmt.Sprintf("c,%d,%d,%d,%d,%s,%d.%d,%d.%d,-", faulty, e, p, h, fb(fe), faulty, h, p, h))
			}
		}
	case 5: // hash not bound: genuine senders sign another hash (other version / other proposer / nothing)
		for _, e := range g.subset(q-1+r.Intn(2), p) {
			var h uint64
			switch r.Intn(3) {
			case 0:
				h = bh(p, 1-ver, fe)
			case 1:
				h = bh((p+1)%g.N, ver, fe)
			default:
				h = uint64(2*r.Intn(9) + 1)
			}
			if r.Chance(60) {
				g.add(fmt.Sprintf("e,%d,%d,%d,%d,%s,%d.%d", e, e, p, h, fb(fe), e, h))
			} else {
				g.add(fmt.Sprintf("c,%d,%d,%d,%d,%s,%d.%d,%d.%d,-", e, e, p, h, fb(fe), e, h, p, bh(p, ver, fe)))
			}
		}
	case 6: // two proposers, endorsements split, empty endorsements, map-order dependent verdicts
		p2 := (p + 1 + r.Intn(g.N)) % g.N
		if p2 != p && r.Chance(70) {
			g.proposal(p2, r.Intn(2))
		}
		for _, e := range g.subset(g.N, -1) {
			switch r.Intn(4) {
			case 0:
				g.endorse(e, p, ver, false)
			case 1:
				g.endorse(e, p2, 0, false)
			case 2:
				g.endorse(e, p, ver, false)
				g.endorse(e, p2, 0, false)
			default:
				g.endorse(e, p, ver, true)
			}
			if r.Chance(25) {
				g.endorse(e, p, ver, true)
			}
		}
		g.add("ed")
	case 7: // empty commits and the emptyCommit flag of getCommitConsensus
		es := g.subset(q-1, p)
		for _, c := range g.subset(1+r.Intn(g.C+2), p) {
			g.commit(c, p, ver, r.Chance(70), es[:r.Intn(len(es)+1)])
		}
	case 8: // duplicates: same committer twice (same / different hash), same endorser twice, re-proposal
		es := g.subset(q-1, p)
		c := (p + 1) % g.N
		g.commit(c, p, ver, fe, es[:r.Intn(len(es)+1)])
		if r.Chance(50) {
			g.commit(c, p, 1-ver, fe, es)
		} else {
			g.commit(c, p, ver, fe, es)
		}
		g.proposal(p, r.Intn(2))
		for _, e := range es {
			g.endorse(e, p, ver, fe)
			if r.Chance(50) {
				g.endorse(e, p, ver, !fe)
			}
		}
	case 9: // the sentinel: proposer index MaxUint32 / a non-peer proposer
		pp := uint64(4294967295)
		if r.Chance(40) {
			pp = uint64(g.N + r.Intn(3))
		}
		h := c31pool.BlockHashID(pp, 0, false)
		for _, e := range g.subset(q-1+r.Intn(2), -1) {
			if r.Chance(50) {
				g.add(fmt.Sprintf("e,%d,%d,%d,%d,0,%d.%d", e, e, pp, h, e, h))
			} else {
				g.add(fmt.Sprintf("c,%d,%d,%d,%d,%s,%d.%d,j1,-", e, e, pp, h, fb(r.Chance(30)), e, h))
			}
		}
		for _, e := range g.subset(r.Intn(q+1), p) {
			g.endorse(e, p, ver, false)
		}
	case 10: // the proposer vouches for itself (C28 finding: counted twice) / proposal absent
		es := g.subset(q-2, p)
		g.commit(p, p, ver, fe, es)
		if r.Chance(50) {
			if o := g.subset(1, p); len(o) > 0 {
				g.commit(o[0], p, ver, fe, nil)
			}
		}
	default: // noise: random well-formed ops
		for k := 0; k < 3+r.Intn(6); k++ {
			s := r.Intn(g.N + 1)
			e := r.Intn(g.N + 2)
			pp := r.Intn(g.N + 1)
			h := bh(pp, r.Intn(2), r.Bool())
			if r.Chance(20) {
				h = uint64(2*r.Intn(5) + 1)
			}
			sig := g.junkSig()
			if r.Chance(70) {
				sig = fmt.Sprintf("%d.%d", s%g.N, h)
			}
			switch r.Intn(5) {
			case 0, 1:
				g.add(fmt.Sprintf("e,%d,%d,%d,%d,%s,%s", s, e, pp, h, fb(r.Chance(30)), sig))
			case 2, 3:
				var el []string
				for _, x := range g.subset(r.Intn(g.N), -1) {
					el = append(el, fmt.Sprintf("%d=%s", x, g.junkSig()))
				}
				els := "-"
				if len(el) > 0 {
					els = strings.Join(el, "+")
				}
				g.add(fmt.Sprintf("c,%d,%d,%d,%d,%s,%s,%s,%s", s, e, pp, h, fb(r.Chance(30)), sig, g.junkSig(), els))
			default:
				g.add(fmt.Sprintf("s%s,%d,%s", []string{"e", "c"}[r.Intn(2)], pp%g.N, fb(r.Chance(30))))
			}
		}
	}
	if r.Chance(30) {
		g.add("ed")
	}
	g.add("cd")
	return fmt.Sprintf("P %d %d %s %s", g.N, g.C, endS, strings.Join(g.ops, ";"))
}

func main() {
	corpus := []string{
		// DESIGN witness: N=4, one commit message from faulty peer 3 claiming endorsers {0,1,2} with junk signatures
		"P 4 1 0,1,2,3 c,3,3,3,24,0,3.24,3.24,0=j1+1=j1+2=j0;cd",
		// the same with the proposal of 3 present
		"P 4 1 0,1,2,3 p,3,0,3.24,3.26;c,3,3,3,24,0,3.24,3.24,0=j1+1=j1+2=j1;cd",
		// index spoofing: peer 3 sends endorsements in the names of 0,1,2 signed with its own key (proposal of 1)
		"P 4 1 0,1,2,3 p,1,0,1.8,1.10;e,3,0,1,8,0,3.8;e,3,2,1,8,0,3.8;e,3,3,1,8,0,3.8;cd",
		// hash not bound: 0,2,3 sign the other version of proposer 1's block
		"P 4 1 0,1,2,3 p,1,0,1.8,1.10;e,0,0,1,12,0,0.12;e,2,2,1,12,0,2.12;cd",
		"P 4 1 0,1,2,3 p,1,0,1.8,1.10;e,0,0,1,7,0,0.7;e,2,2,1,7,0,2.7;cd",
		// honest quorum, signature path and commit path
		"P 4 1 0,1,2,3 p,1,0,1.8,1.10;e,0,0,1,8,0,0.8;e,2,2,1,8,0,2.8;ed;cd",
		"P 4 1 0,1,2,3 p,1,0,1.8,1.10;e,0,0,1,8,0,0.8;e,2,2,1,8,0,2.8;c,3,3,1,8,0,3.8,1.8,0=0.8+2=2.8;cd",
		// proposer presumed: commit path with the proposal absent and a junk ProposerSig copy
		"P 4 1 0,1,2,3 c,0,0,1,8,0,0.8,j1,2=2.8;cd",
		// proposer counted twice
		"P 4 1 0,1,2,3 p,1,0,1.8,1.10;c,1,1,1,8,0,1.8,1.8,0=0.8;cd",
		// map-order dependent forEmpty flag
		"P 4 1 0,1,2 p,1,0,1.8,1.10;e,0,0,1,8,0,0.8;e,0,0,1,10,1,0.10;e,2,2,1,8,0,2.8;e,2,2,1,10,1,2.10;e,3,3,1,10,1,3.10;cd",
		// Props/C31.lean C31_forEmpty_depends_on_map_order / C31_done_depends_on_map_order_with_sentinel (same pools)
		"P 4 1 0,1,2,3 e,0,0,1,8,0,0.8;e,0,0,1,10,1,0.10;e,1,1,1,8,0,1.8;e,1,1,1,10,1,1.10;e,2,2,1,8,0,2.8;e,3,3,1,10,1,3.10;cd",
		"P 4 1 0,1,2,3 e,0,0,1,8,0,0.8;e,0,0,4294967295,34359738360,0,0.34359738360;e,1,1,1,8,0,1.8;e,1,1,4294967295,34359738360,0,1.34359738360;e,2,2,4294967295,34359738360,0,2.34359738360;e,2,2,1,8,0,2.8;e,3,3,4294967295,34359738360,0,3.34359738360;cd",
		// Props/C34.lean C34_partial_does_not_cover_forEmpty: the two N = 7 pools (full block declared / empty block declared)
		"P 7 2 0,1,2,3,4,5,6 p,1,0,1.8,1.10;e,0,0,1,8,0,0.8;e,2,2,1,8,0,2.8;e,3,3,1,8,0,3.8;e,4,4,1,8,0,4.8;cd",
		"P 7 2 0,1,2,3,4,5,6 p,1,0,1.8,1.10;c,0,0,1,10,1,0.10,1.10,-;c,2,2,1,10,1,2.10,1.10,-;c,3,3,1,10,1,3.10,1.10,-;c,4,4,1,10,1,4.10,1.10,-;cd",
		// Props/C34.lean C34_seal_obligation_fails_*: proposal and two endorsements, no commit message
		"P 4 1 0,1,2,3 p,1,0,1.8,1.10;e,0,0,1,8,0,0.8;e,2,2,1,8,0,2.8;cd",
		// sentinel proposer
		"P 4 1 0,1,2,3 c,0,0,4294967295,34359738360,0,0.34359738360,j1,1=j1+2=j1;cd",
		"P 4 1 - -",
		"P 1 0 0 cd;ed",
	}
	hx.Main(hx.Prop{
		ID: "C31",
		Rule: "histories of proposal/endorse/commit messages (N in 1..7, mostly 4 and 7) delivered to a real BlockPool through msg.Verify(sender key) + intake: honest runs around the thresholds, forged EndorsersSig, sender/index mismatch, unbound hashes, empty endorsements/commits, duplicates, sentinel proposer, noise; every line ends with commitDone. Non-trivial = distinct line; kinds = verdict path x genuine-quorum audit",
		Gen:    genLine,
		Exec:   exec,
		Init:   initWorld,
		Corpus: corpus,
		N:      map[string]int{"quick": 2500, "thorough": 60000},
	})
}
