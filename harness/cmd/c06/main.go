// C06 harness: the real native ONT / ONG contracts driven through native.NativeService on a storage.CacheDB over a
// memory store; every op is one "transaction": its own CacheDB over the block overlay, committed iff the invocation returns
// err == nil (what HandleInvokeTransaction does), with the real smartcontract.SmartContract as ContextRef (CheckWitness).
//
// Line:  <net> <init> <op>;<op>;…      (see lean/OntVerif/OntVerif/Driver/C06.lean for the grammar)
// Output: one result per op (`ok`, `false`, `err:<kind>{cache left behind}`, `panic{…}`), ` | `, final committed state.
package main

import (
	"fmt"
	"math/big"
	"sort"
	"strconv"
	"strings"

	"github.com/laizy/bigint"
	"github.com/ontio/ontology/common"
	"github.com/ontio/ontology/common/config"
	"github.com/ontio/ontology/common/constants"
	"github.com/ontio/ontology/common/log"
	cstates "github.com/ontio/ontology/core/states"
	"github.com/ontio/ontology/core/store/leveldbstore"
	"github.com/ontio/ontology/core/store/overlaydb"
	"github.com/ontio/ontology/core/types"
	"github.com/ontio/ontology/smartcontract"
	sccontext "github.com/ontio/ontology/smartcontract/context"
	"github.com/ontio/ontology/smartcontract/service/native/ong"
	"github.com/ontio/ontology/smartcontract/service/native/ont"
	"github.com/ontio/ontology/smartcontract/service/native/utils"
	"github.com/ontio/ontology/smartcontract/storage"
	"verif/harness/internal/hx"
)

const height = 20000000 // above every feature height of every network: all v2 methods registered, no uint64 wrapping mode

var names = []string{"a0", "a1", "a2", "a3", "ont", "ong", "gov"}
var addrs = map[string]common.Address{}

func initAddrs() {
	for i := 0; i < 4; i++ {
		var a common.Address
		for j := range a {
			a[j] = byte(0xA0 + i)
		}
		a[19] = byte(i)
		addrs[fmt.Sprintf("a%d", i)] = a
	}
	addrs["ont"] = utils.OntContractAddress
	addrs["ong"] = utils.OngContractAddress
	addrs["gov"] = utils.GovernanceContractAddress
	for n, a := range addrs {
		nameOf[a] = n
	}
}

func contractOf(tok string) common.Address {
	if tok == "ont" {
		return utils.OntContractAddress
	}
	return utils.OngContractAddress
}

func offsetKey(addr common.Address) []byte {
	c := utils.OntContractAddress
	k := append(c[:], ont.UNBOUND_TIME_OFFSET_KEY...)
	return append(k, addr[:]...)
}

type snapshot struct {
	bal   map[string]map[string]*big.Int // tok -> addr -> balance
	allow map[string]map[string]*big.Int // tok -> "a>b" -> allowance
	off   map[string]uint32
	alien []string // keys of an unexpected shape
}

var nameOf = map[common.Address]string{}

func addrName(b []byte) string {
	var a common.Address
	copy(a[:], b)
	if n, ok := nameOf[a]; ok {
		return n
	}
	return "x" + a.ToHexString()
}

// readState walks the whole storage of both contracts (one iterator per contract over cache + overlay + store) and sorts
// every item by the shape of its key: contract‖addr = balance, contract‖from‖to = allowance,
// contract‖"unboundTimeOffset"‖addr = offset. Any other key (except totalSupply) is reported under `alien`.
func readState(cache *storage.CacheDB) snapshot {
	s := snapshot{bal: map[string]map[string]*big.Int{}, allow: map[string]map[string]*big.Int{}, off: map[string]uint32{}}
	zero := new(big.Int)
	for _, tok := range []string{"ont", "ong"} {
		s.bal[tok] = map[string]*big.Int{}
		s.allow[tok] = map[string]*big.Int{}
		for _, n := range names {
			s.bal[tok][n] = zero
			for _, m := range names {
				s.allow[tok][n+">"+m] = zero
			}
		}
	}
	for _, n := range names {
		s.off[n] = 0
	}
	offTag := []byte(ont.UNBOUND_TIME_OFFSET_KEY)
	for _, tok := range []string{"ont", "ong"} {
		c := contractOf(tok)
		it := cache.NewIterator(c[:])
		for has := it.First(); has; has = it.Next() {
			key := append([]byte{}, it.Key()...)
			val := it.Value()
			if len(val) == 0 {
				continue
			}
			rest := key[20:]
			item := new(cstates.StorageItem)
			if err := item.Deserialization(common.NewZeroCopySource(val)); err != nil {
				panic("corrupt storage item")
			}
			switch {
			case len(rest) == 20:
				b, err := cstates.NativeTokenBalanceFromStorageItem(item)
				if err != nil {
					panic("corrupt balance item: " + err.Error())
				}
				s.bal[tok][addrName(rest)] = b.ToBigInt()
			case len(rest) == 40:
				b, err := cstates.NativeTokenBalanceFromStorageItem(item)
				if err != nil {
					panic("corrupt allowance item: " + err.Error())
				}
				s.allow[tok][addrName(rest[:20])+">"+addrName(rest[20:])] = b.ToBigInt()
			case len(rest) == len(offTag)+20 && string(rest[:len(offTag)]) == string(offTag) && tok == "ont":
				if len(item.Value) != 4 {
					panic("corrupt offset item")
				}
				s.off[addrName(rest[len(offTag):])] = uint32(item.Value[0]) | uint32(item.Value[1])<<8 | uint32(item.Value[2])<<16 | uint32(item.Value[3])<<24
			default:
				s.alien = append(s.alien, tok+":"+hx.Hex(rest))
			}
		}
		it.Release()
	}
	return s
}

func (s snapshot) dump() string {
	var out []string
	for _, tok := range []string{"ont", "ong"} {
		for _, n := range names {
			if v := s.bal[tok][n]; v.Sign() != 0 {
				out = append(out, fmt.Sprintf("%sb.%s=%s", tok, n, v))
			}
		}
	}
	for _, tok := range []string{"ont", "ong"} {
		for _, n := range names {
			for _, m := range names {
				if v := s.allow[tok][n+">"+m]; v.Sign() != 0 {
					out = append(out, fmt.Sprintf("%sa.%s>%s=%s", tok, n, m, v))
				}
			}
		}
	}
	for _, n := range names {
		if s.off[n] != 0 {
			out = append(out, fmt.Sprintf("off.%s=%d", n, s.off[n]))
		}
	}
	// anything outside the tracked account set (never expected): appended in sorted order
	var extra []string
	for _, tok := range []string{"ont", "ong"} {
		for k, v := range s.bal[tok] {
			if strings.HasPrefix(k, "x") && v.Sign() != 0 {
				extra = append(extra, fmt.Sprintf("%sb.%s=%s", tok, k, v))
			}
		}
		for k, v := range s.allow[tok] {
			if strings.Contains(k, "x") && v.Sign() != 0 {
				extra = append(extra, fmt.Sprintf("%sa.%s=%s", tok, k, v))
			}
		}
	}
	for k, v := range s.off {
		if strings.HasPrefix(k, "x") && v != 0 {
			extra = append(extra, fmt.Sprintf("off.%s=%d", k, v))
		}
	}
	extra = append(extra, s.alien...)
	sort.Strings(extra)
	out = append(out, extra...)
	if len(out) == 0 {
		return "-"
	}
	return strings.Join(out, ",")
}

func (s snapshot) total(tok string) *big.Int {
	t := new(big.Int)
	for _, v := range s.bal[tok] { // every balance item of the contract, tracked account or not
		t.Add(t, v)
	}
	return t
}

func balItem(v *big.Int) []byte {
	b := cstates.NativeTokenBalance{Balance: bigint.New(v)}
	whole := new(big.Int).Div(v, big.NewInt(cstates.ScaleFactor))
	if !b.IsFloat() && !whole.IsUint64() {
		// not representable by MustToStorageItem: write the big-integer form by hand (a state the contracts cannot produce)
		it := &cstates.StorageItem{StateBase: cstates.StateBase{StateVersion: cstates.ScaleDecimal9Version}, Value: common.BigIntToNeoBytes(v)}
		return it.ToArray()
	}
	return b.MustToStorageItemBytes()
}

func applyInit(cache *storage.CacheDB, init string) bool {
	if init == "-" {
		return true
	}
	for _, item := range strings.Split(init, ",") {
		kv := strings.SplitN(item, "=", 2)
		if len(kv) != 2 {
			return false
		}
		tr := strings.SplitN(kv[0], ".", 2)
		if len(tr) != 2 {
			return false
		}
		v, ok := new(big.Int).SetString(kv[1], 10)
		if !ok || v.Sign() < 0 {
			return false
		}
		switch tr[0] {
		case "off":
			a, ok := addrs[tr[1]]
			if !ok || !v.IsUint64() || v.Uint64() >= 1<<32 {
				return false
			}
			cache.Put(offsetKey(a), utils.GenUInt32StorageItem(uint32(v.Uint64())).ToArray())
		case "ontb", "ongb":
			a, ok := addrs[tr[1]]
			if !ok {
				return false
			}
			cache.Put(ont.GenBalanceKey(contractOf(tr[0][:3]), a), balItem(v))
		case "onta", "onga":
			ab := strings.SplitN(tr[1], ">", 2)
			if len(ab) != 2 {
				return false
			}
			a, ok1 := addrs[ab[0]]
			b, ok2 := addrs[ab[1]]
			if !ok1 || !ok2 {
				return false
			}
			cache.Put(ont.GenApproveKey(contractOf(tr[0][:3]), a, b), balItem(v))
		default:
			return false
		}
	}
	return true
}

type xfer struct {
	from, to string
	val      *big.Int
}

type op struct {
	tok, kind string // kind t|a|f
	v2        bool
	time      uint32
	pre       bool
	signers   []string
	caller    string
	sender    string
	xs        []xfer
}

func parseArrow(s string) (xfer, bool) {
	kv := strings.SplitN(s, "=", 2)
	if len(kv) != 2 {
		return xfer{}, false
	}
	ab := strings.SplitN(kv[0], ">", 2)
	if len(ab) != 2 {
		return xfer{}, false
	}
	v, ok := new(big.Int).SetString(kv[1], 10)
	if !ok || v.Sign() < 0 {
		return xfer{}, false
	}
	if _, ok := addrs[ab[0]]; !ok {
		return xfer{}, false
	}
	if _, ok := addrs[ab[1]]; !ok {
		return xfer{}, false
	}
	return xfer{ab[0], ab[1], v}, true
}

func parseOp(s string) (op, bool) {
	f := strings.Split(s, ":")
	if len(f) != 5 {
		return op{}, false
	}
	var o op
	tk := strings.SplitN(f[0], ".", 2)
	if len(tk) != 2 || (tk[0] != "ont" && tk[0] != "ong") || len(tk[1]) != 2 {
		return op{}, false
	}
	o.tok, o.kind = tk[0], tk[1][:1]
	switch tk[1][1] {
	case '1':
	case '2':
		o.v2 = true
	default:
		return op{}, false
	}
	if o.kind != "t" && o.kind != "a" && o.kind != "f" {
		return op{}, false
	}
	ts := f[1]
	if strings.HasSuffix(ts, "p") {
		o.pre = true
		ts = ts[:len(ts)-1]
	}
	t, err := strconv.ParseUint(ts, 10, 32)
	if err != nil {
		return op{}, false
	}
	o.time = uint32(t)
	if f[2] != "-" {
		for _, n := range strings.Split(f[2], "+") {
			if _, ok := addrs[n]; !ok {
				return op{}, false
			}
			o.signers = append(o.signers, n)
		}
	}
	if f[3] != "-" {
		if _, ok := addrs[f[3]]; !ok {
			return op{}, false
		}
		o.caller = f[3]
	}
	body := f[4]
	switch o.kind {
	case "t":
		if body != "-" {
			for _, x := range strings.Split(body, "+") {
				xf, ok := parseArrow(x)
				if !ok {
					return op{}, false
				}
				o.xs = append(o.xs, xf)
			}
		}
	case "a":
		xf, ok := parseArrow(body)
		if !ok {
			return op{}, false
		}
		o.xs = []xfer{xf}
	case "f":
		sb := strings.SplitN(body, "/", 2)
		if len(sb) != 2 {
			return op{}, false
		}
		if _, ok := addrs[sb[0]]; !ok {
			return op{}, false
		}
		o.sender = sb[0]
		xf, ok := parseArrow(sb[1])
		if !ok {
			return op{}, false
		}
		o.xs = []xfer{xf}
	}
	if !o.v2 { // version-1 amounts are uint64
		for _, x := range o.xs {
			if !x.val.IsUint64() {
				return op{}, false
			}
		}
	}
	return o, true
}

func v2bal(v *big.Int) cstates.NativeTokenBalance { return cstates.NativeTokenBalance{Balance: bigint.New(v)} }

// serialise with the contracts' own parameter types
func (o op) encode() (string, []byte) {
	sink := common.NewZeroCopySink(nil)
	switch o.kind {
	case "t":
		if o.v2 {
			var st ont.TransferStatesV2
			for _, x := range o.xs {
				st.States = append(st.States, &ont.TransferStateV2{From: addrs[x.from], To: addrs[x.to], Value: v2bal(x.val)})
			}
			st.Serialization(sink)
			return ont.TRANSFER_V2_NAME, sink.Bytes()
		}
		var st ont.TransferStates
		for _, x := range o.xs {
			st.States = append(st.States, ont.TransferState{From: addrs[x.from], To: addrs[x.to], Value: x.val.Uint64()})
		}
		st.Serialization(sink)
		return ont.TRANSFER_NAME, sink.Bytes()
	case "a":
		x := o.xs[0]
		if o.v2 {
			st := ont.TransferStateV2{From: addrs[x.from], To: addrs[x.to], Value: v2bal(x.val)}
			st.Serialization(sink)
			return ont.APPROVE_V2_NAME, sink.Bytes()
		}
		st := ont.TransferState{From: addrs[x.from], To: addrs[x.to], Value: x.val.Uint64()}
		st.Serialization(sink)
		return ont.APPROVE_NAME, sink.Bytes()
	default:
		x := o.xs[0]
		if o.v2 {
			st := ont.TransferFromStateV2{Sender: addrs[o.sender], TransferStateV2: ont.TransferStateV2{From: addrs[x.from], To: addrs[x.to], Value: v2bal(x.val)}}
			st.Serialization(sink)
			return ont.TRANSFERFROM_V2_NAME, sink.Bytes()
		}
		st := ont.NewTransferFromState(addrs[o.sender], addrs[x.from], addrs[x.to], x.val.Uint64())
		st.Serialization(sink)
		return ont.TRANSFERFROM_NAME, sink.Bytes()
	}
}

func classify(err error) string {
	m := err.Error()
	switch {
	case strings.Contains(m, "authentication failed"):
		return "err:auth"
	case strings.Contains(m, "approve balance insufficient"):
		return "err:allowance"
	case strings.Contains(m, "balance insufficient"):
		return "err:insufficient"
	case strings.Contains(m, "over totalSupply"):
		return "err:oversupply"
	case strings.Contains(m, "wrong timestamp"):
		return "err:timestamp"
	}
	if len(m) > 60 {
		m = m[:60]
	}
	return "err:other:" + strings.ReplaceAll(m, " ", "_")
}

// invoke runs one op on its own cache; returns the result string and whether to commit
func invoke(overlay *overlaydb.OverlayDB, o op) (res string, cache *storage.CacheDB, commit bool) {
	cache = storage.NewCacheDB(overlay)
	var signed []common.Address
	for _, n := range o.signers {
		signed = append(signed, addrs[n])
	}
	tx := &types.Transaction{SignedAddr: signed}
	sc := &smartcontract.SmartContract{
		Config:  &smartcontract.Config{Time: o.time, Height: height, Tx: tx},
		CacheDB: cache,
		PreExec: o.pre,
	}
	if o.caller != "" {
		sc.PushContext(&sccontext.Context{ContractAddress: addrs[o.caller]})
	}
	defer func() {
		if e := recover(); e != nil {
			res, commit = "panic", false
		}
	}()
	ns, err := sc.NewNativeService()
	if err != nil {
		return "err:other:service", cache, false
	}
	method, args := o.encode()
	out, err := ns.NativeCall(contractOf(o.tok), method, args)
	if err != nil {
		return classify(err), cache, false
	}
	if len(out) == 1 && out[0] == 1 {
		return "ok", cache, true
	}
	return "false", cache, true
}

func mulSF(v *big.Int) *big.Int { return new(big.Int).Mul(v, big.NewInt(cstates.ScaleFactor)) }

func contains(l []string, x string) bool {
	for _, y := range l {
		if y == x {
			return true
		}
	}
	return false
}

// predicate on the implementation's own before/after states
func judge(o op, res string, before, after snapshot) (fail, class string) {
	tag := o.tok + "." + o.kind
	for _, tok := range []string{"ont", "ong"} {
		if before.total(tok).Cmp(after.total(tok)) != 0 {
			return fmt.Sprintf("sum of %s balances %s -> %s", tok, before.total(tok), after.total(tok)), tok + "-supply-changed:" + tag
		}
	}
	if res != "ok" {
		if before.dump() != after.dump() {
			return "state changed by a call that returned " + res, "state-changed-without-success:" + tag
		}
		return "", ""
	}
	witnessed := func(a string) bool { return contains(o.signers, a) || (o.caller != "" && o.caller == a) }
	other := "ong"
	if o.tok == "ong" {
		other = "ont"
	}
	base := func(x xfer) *big.Int {
		if o.v2 {
			return x.val
		}
		return mulSF(x.val)
	}
	// the op's own token
	for _, a := range names {
		d := new(big.Int).Sub(before.bal[o.tok][a], after.bal[o.tok][a])
		if d.Sign() <= 0 {
			continue
		}
		switch o.kind {
		case "t":
			if !witnessed(a) {
				return fmt.Sprintf("%s of %s debited by %s without its witness", o.tok, a, d), "transfer-debit-unwitnessed:" + o.tok
			}
		case "a":
			return "approve changed a balance", "approve-changed-balance:" + o.tok
		case "f":
			if a != o.xs[0].from {
				return fmt.Sprintf("transferFrom debited %s, not the `from` account", a), "transferfrom-debits-third-party:" + o.tok
			}
		}
	}
	if o.kind == "f" {
		x := o.xs[0]
		v := base(x)
		key := x.from + ">" + o.sender
		al0, al1 := before.allow[o.tok][key], after.allow[o.tok][key]
		if al0.Cmp(v) < 0 {
			return fmt.Sprintf("transferFrom of %s succeeded with allowance %s", v, al0), "transferfrom-beyond-allowance:" + o.tok
		}
		if new(big.Int).Sub(al0, v).Cmp(al1) != 0 {
			return fmt.Sprintf("allowance %s -> %s after spending %s", al0, al1, v), "allowance-not-decremented:" + o.tok
		}
		deadline := config.GetOntHolderUnboundDeadline() + constants.GENESIS_BLOCK_TIMESTAMP
		ok := witnessed(o.sender)
		if !ok && o.time > deadline && witnessed("ont") && o.sender == x.to && x.from == "ont" {
			ok = true
		}
		if !ok {
			return "transferFrom succeeded although the sender did not witness the call", "transferfrom-sender-unwitnessed:" + o.tok
		}
		if x.from != x.to && new(big.Int).Sub(before.bal[o.tok][x.from], after.bal[o.tok][x.from]).Cmp(v) != 0 {
			return "transferFrom did not debit exactly the amount", "transferfrom-wrong-debit:" + o.tok
		}
	}
	if o.kind == "a" {
		x := o.xs[0]
		if !witnessed(x.from) {
			return "approve succeeded without the owner's witness", "approve-unwitnessed:" + o.tok
		}
		if after.allow[o.tok][x.from+">"+x.to].Cmp(base(x)) != 0 {
			return "approve did not record the amount", "approve-wrong-amount:" + o.tok
		}
	}
	// allowances of the op's token may only change for the pair the op names
	for k, v := range before.allow[o.tok] {
		if v.Cmp(after.allow[o.tok][k]) != 0 {
			okPair := (o.kind == "a" && k == o.xs[0].from+">"+o.xs[0].to) || (o.kind == "f" && k == o.xs[0].from+">"+o.sender)
			if !okPair {
				return "allowance " + k + " changed by an op that does not name it", "foreign-allowance-changed:" + tag
			}
		}
	}
	// the other token
	for _, a := range names {
		d := new(big.Int).Sub(before.bal[other][a], after.bal[other][a])
		if d.Sign() > 0 && !(o.tok == "ont" && other == "ong" && a == "ont" && o.kind != "a") {
			return fmt.Sprintf("%s of %s debited by a %s call", other, a, o.tok), "cross-token-debit:" + tag
		}
	}
	if o.tok == "ong" || o.kind == "a" {
		for k, v := range before.allow[other] {
			if v.Cmp(after.allow[other][k]) != 0 {
				return "allowance of the other token changed", "cross-token-allowance:" + tag
			}
		}
	}
	return "", ""
}

var emptyStore *leveldbstore.LevelDBStore

func exec(line string) hx.Result {
	f := strings.Fields(line)
	if len(f) != 3 {
		return hx.Result{Out: "bad-op"}
	}
	net, err := strconv.ParseUint(f[0], 10, 32)
	if err != nil {
		return hx.Result{Out: "bad-op"}
	}
	config.DefConfig.P2PNode.NetworkId = uint32(net)
	var ops []op
	for _, s := range strings.Split(f[2], ";") {
		o, ok := parseOp(s)
		if !ok {
			return hx.Result{Out: "bad-op"}
		}
		ops = append(ops, o)
	}
	if emptyStore == nil {
		emptyStore = leveldbstore.NewMemLevelDBStore() // never written: every line works in its own overlay on top of it
	}
	overlay := overlaydb.NewOverlayDB(emptyStore)
	c0 := storage.NewCacheDB(overlay)
	if !applyInit(c0, f[1]) {
		return hx.Result{Out: "bad-op"}
	}
	c0.Commit()
	res := hx.Result{}
	var outs []string
	before := readState(storage.NewCacheDB(overlay))
	anyOK := false
	lastKind := ""
	for _, o := range ops {
		r, cache, commit := invoke(overlay, o)
		flags := ""
		if commit {
			cache.Commit()
			outs = append(outs, r)
		} else {
			outs = append(outs, r+"{"+readState(cache).dump()+"}")
		}
		after := readState(storage.NewCacheDB(overlay))
		if r == "ok" {
			anyOK = true
			if o.tok == "ont" && before.bal["ong"]["ont"].Cmp(after.bal["ong"]["ont"]) != 0 {
				flags += "+ongmoved"
			}
			if o.tok == "ont" && o.kind != "a" && before.allow["ong"]["ont>"+o.xs0to()].Cmp(after.allow["ong"]["ont>"+o.xs0to()]) < 0 {
				flags += "+ongaccrued"
			}
			for _, x := range o.xs {
				if x.from == x.to && x.val.Sign() > 0 {
					flags += "+self"
					break
				}
			}
		}
		if res.Fail == "" {
			if fl, cl := judge(o, r, before, after); fl != "" {
				res.Fail, res.Class = fl, cl
			}
		}
		lastKind = o.tok + "." + o.kind + ":" + strings.SplitN(r, "{", 2)[0] + flags
		if strings.HasPrefix(r, "err:other") && res.Fail == "" {
			res.Fail, res.Class = "unclassified error "+r, "unclassified-error"
		}
		before = after
	}
	res.Out = strings.Join(outs, " ") + " | " + before.dump()
	res.Kind = lastKind
	if anyOK {
		res.Key = line
	}
	return res
}

func (o op) xs0to() string {
	if len(o.xs) == 0 {
		return "a0"
	}
	return o.xs[0].to
}

// ---------------------------------------------------------------- generator

var users = []string{"a0", "a1", "a2", "a3"}

func pickAddr(r *hx.Rand) string {
	switch r.Intn(12) {
	case 0:
		return "gov"
	case 1:
		return "ont"
	case 2:
		if r.Chance(30) {
			return "ong"
		}
	}
	return users[r.Intn(len(users))]
}

type genState struct {
	bal   map[string]map[string]*big.Int
	allow map[string]map[string]*big.Int // allowances the generator believes exist ("a>b"), to aim transferFrom at them
}

func bigS(s string) *big.Int { v, _ := new(big.Int).SetString(s, 10); return v }

func genInit(r *hx.Rand, net uint32) (string, genState) {
	gs := genState{bal: map[string]map[string]*big.Int{"ont": {}, "ong": {}}, allow: map[string]map[string]*big.Int{"ont": {}, "ong": {}}}
	var items []string
	// ONT: 10^18 base units over users + gov (+ sometimes ont contract)
	for _, n := range names {
		gs.bal["ont"][n] = new(big.Int)
		gs.bal["ong"][n] = new(big.Int)
	}
	left := bigS("1000000000000000000")
	holders := []string{"a0", "a1", "a2", "gov"}
	if r.Chance(30) {
		holders = append(holders, "a3")
	}
	for i, h := range holders {
		var v *big.Int
		if i == len(holders)-1 {
			v = new(big.Int).Set(left)
		} else {
			v = new(big.Int).Div(left, big.NewInt(int64(2+r.Intn(3))))
			switch r.Intn(4) {
			case 0: // whole ONT only
				v.Div(v, big.NewInt(1000000000)).Mul(v, big.NewInt(1000000000))
			case 1:
				v = big.NewInt(int64(r.Intn(5))*1000000000 + int64(r.Intn(3)))
			}
		}
		left.Sub(left, v)
		if v.Sign() > 0 {
			gs.bal["ont"][h] = v
			items = append(items, "ontb."+h+"="+v.String())
		}
	}
	// ONG: the ONT contract holds the undistributed pool, users hold some
	pool := bigS("1000000000000000000000000000")
	switch r.Intn(6) {
	case 0:
		pool = big.NewInt(int64(r.Intn(1000)) * 1000000000) // nearly empty pool: grants fail with insufficient balance
	case 1:
		pool = new(big.Int)
	}
	for _, u := range users {
		if r.Chance(60) {
			v := new(big.Int).Mul(big.NewInt(int64(r.Intn(1000000))), bigS("1000000000000000"))
			if r.Chance(40) {
				v.Add(v, big.NewInt(int64(r.Intn(1000000000))))
			}
			if v.Sign() > 0 && v.Cmp(pool) <= 0 {
				pool.Sub(pool, v)
				gs.bal["ong"][u] = v
				items = append(items, "ongb."+u+"="+v.String())
			}
		}
	}
	if pool.Sign() > 0 {
		gs.bal["ong"]["ont"] = pool
		items = append(items, "ongb.ont="+pool.String())
	}
	// allowances
	for i := r.Intn(4); i > 0; i-- {
		tok := []string{"ont", "ong"}[r.Intn(2)]
		a, b := pickAddr(r), pickAddr(r)
		v := genAmountBase(r, tok, gs, a)
		if v.Sign() > 0 {
			items = append(items, fmt.Sprintf("%sa.%s>%s=%s", tok, a, b, v))
			gs.allow[tok][a+">"+b] = v
		}
	}
	if r.Chance(50) { // ONG accrued earlier for a holder
		u := users[r.Intn(4)]
		items = append(items, fmt.Sprintf("onga.ont>%s=%d", u, int64(r.Intn(100000))*1000000000+int64(r.Intn(2))*int64(r.Intn(1000))))
	}
	// unbound offsets
	config.DefConfig.P2PNode.NetworkId = net
	d := config.GetOntHolderUnboundDeadline()
	for _, n := range []string{"a0", "a1", "a2", "a3", "gov"} {
		switch r.Intn(4) {
		case 0:
			items = append(items, fmt.Sprintf("off.%s=%d", n, 1+r.Intn(int(d)+1000)))
		case 1:
			items = append(items, fmt.Sprintf("off.%s=%d", n, uint32(d)+uint32(r.Intn(3))-1+1))
		}
	}
	// de-duplicate keys (last wins in both implementations, but keep lines clean)
	seen := map[string]bool{}
	var outItems []string
	for i := len(items) - 1; i >= 0; i-- {
		k := strings.SplitN(items[i], "=", 2)[0]
		if !seen[k] {
			seen[k] = true
			outItems = append([]string{items[i]}, outItems...)
		}
	}
	if len(outItems) == 0 {
		return "-", gs
	}
	return strings.Join(outItems, ","), gs
}

// amount in base units
func genAmountBase(r *hx.Rand, tok string, gs genState, from string) *big.Int {
	bal := gs.bal[tok][from]
	supply := bigS("1000000000000000000")
	unit := big.NewInt(1000000000)
	if tok == "ong" {
		supply = bigS("1000000000000000000000000000")
	}
	switch r.Intn(14) {
	case 0:
		return new(big.Int)
	case 1:
		return big.NewInt(1)
	case 2:
		return new(big.Int).Set(bal)
	case 3:
		return new(big.Int).Add(bal, big.NewInt(1))
	case 4:
		if bal.Sign() > 0 {
			return new(big.Int).Sub(bal, big.NewInt(1))
		}
		return big.NewInt(2)
	case 5:
		return supply
	case 6:
		return new(big.Int).Add(supply, big.NewInt(1))
	case 7, 8:
		return new(big.Int).Mul(unit, big.NewInt(int64(1+r.Intn(1000))))
	case 9:
		return new(big.Int).Add(new(big.Int).Mul(unit, big.NewInt(int64(r.Intn(50)))), big.NewInt(int64(1+r.Intn(999999999))))
	case 10:
		if bal.Sign() > 0 {
			return new(big.Int).Div(bal, big.NewInt(int64(2+r.Intn(5))))
		}
		return unit
	default:
		return big.NewInt(int64(1 + r.Intn(2000000000)))
	}
}

func genTimes(r *hx.Rand, net uint32) []uint32 {
	config.DefConfig.P2PNode.NetworkId = net
	g := constants.GENESIS_BLOCK_TIMESTAMP
	d := config.GetOntHolderUnboundDeadline()
	return []uint32{g - 1, g, g + 1, g + 1000, g + d/2, g + d - 1, g + d, g + d + 1, g + d + 2, g + d + 1000, g + d + 31536000, g + 2*31536000 + 5, 0, 4294967295}
}

func genOp(r *hx.Rand, net uint32, gs genState, t uint32) string {
	tok := []string{"ont", "ong"}[r.Intn(2)]
	kind := []string{"t", "t", "t", "a", "f", "f"}[r.Intn(6)]
	v2 := r.Bool()
	amount := func(from string) string {
		v := genAmountBase(r, tok, gs, from)
		if v2 {
			return v.String()
		}
		// version 1: whole units (uint64)
		w := new(big.Int).Div(v, big.NewInt(1000000000))
		if r.Chance(15) && v.Sign() > 0 && w.Sign() == 0 {
			w = big.NewInt(1)
		}
		if !w.IsUint64() {
			w = new(big.Int).SetUint64(^uint64(0))
		}
		return w.String()
	}
	var body, from, sender string
	switch kind {
	case "t":
		n := 1
		if r.Chance(25) {
			n = r.Intn(4)
		}
		var xs []string
		for i := 0; i < n; i++ {
			f, to := pickAddr(r), pickAddr(r)
			if r.Chance(8) {
				to = f
			}
			if i == 0 {
				from = f
			}
			xs = append(xs, fmt.Sprintf("%s>%s=%s", f, to, amount(f)))
		}
		if n == 0 {
			body = "-"
		} else {
			body = strings.Join(xs, "+")
		}
	case "a":
		from = pickAddr(r)
		to := pickAddr(r)
		am := amount(from)
		body = fmt.Sprintf("%s>%s=%s", from, to, am)
		if v, ok := new(big.Int).SetString(am, 10); ok && v.Sign() > 0 {
			if !v2 {
				v = mulSF(v)
			}
			gs.allow[tok][from+">"+to] = v
		}
	default:
		from = pickAddr(r)
		sender = pickAddr(r)
		to := pickAddr(r)
		switch r.Intn(5) {
		case 0:
			to = sender
		case 1:
			to = from
		}
		if r.Chance(10) {
			from, to = "ont", sender // the shape of the automatic grant
		}
		am := amount(from)
		if len(gs.allow[tok]) > 0 && r.Chance(65) { // aim at an allowance that (probably) exists
			var keys []string
			for k := range gs.allow[tok] {
				keys = append(keys, k)
			}
			sort.Strings(keys)
			k := keys[r.Intn(len(keys))]
			al := gs.allow[tok][k]
			ab := strings.SplitN(k, ">", 2)
			from, sender = ab[0], ab[1]
			if to == from && r.Chance(70) {
				to = users[r.Intn(len(users))]
			}
			v := new(big.Int).Set(al)
			switch r.Intn(6) {
			case 0:
				v.Add(v, big.NewInt(1))
			case 1:
				if v.Sign() > 0 {
					v.Sub(v, big.NewInt(1))
				}
			case 2, 3:
				v.Div(v, big.NewInt(int64(2+r.Intn(4))))
			}
			if bal := gs.bal[tok][from]; bal.Sign() > 0 && v.Cmp(bal) > 0 && r.Chance(70) {
				v = new(big.Int).Div(bal, big.NewInt(int64(1+r.Intn(4))))
			}
			if !v2 {
				v.Div(v, big.NewInt(1000000000))
			}
			am = v.String()
		}
		body = fmt.Sprintf("%s/%s>%s=%s", sender, from, to, am)
	}
	// signers: usually the account that has to witness
	need := from
	if kind == "f" {
		need = sender
	}
	var signers []string
	if r.Chance(80) && need != "" {
		signers = append(signers, need)
	}
	for _, u := range names {
		if r.Chance(8) && !contains(signers, u) {
			signers = append(signers, u)
		}
	}
	sg := "-"
	if len(signers) > 0 {
		sg = strings.Join(signers, "+")
	}
	caller := "-"
	switch r.Intn(12) {
	case 0:
		caller = need
		if caller == "" {
			caller = "a0"
		}
	case 1:
		caller = pickAddr(r)
	}
	ver := "1"
	if v2 {
		ver = "2"
	}
	ts := strconv.FormatUint(uint64(t), 10)
	if r.Chance(4) {
		ts += "p"
	}
	return fmt.Sprintf("%s.%s%s:%s:%s:%s:%s", tok, kind, ver, ts, sg, caller, body)
}

func gen(r *hx.Rand, tier string, i int) string {
	net := []uint32{1, 1, 2, 0, 3}[r.Intn(5)]
	init, gs := genInit(r, net)
	times := genTimes(r, net)
	n := 1 + r.Intn(10)
	// a mostly non-decreasing walk over the interesting block times
	idx := r.Intn(len(times) - 2)
	var ops []string
	for j := 0; j < n; j++ {
		t := times[idx]
		if r.Chance(30) {
			t += uint32(r.Intn(5000))
		}
		ops = append(ops, genOp(r, net, gs, t))
		switch {
		case r.Chance(50):
		case r.Chance(80):
			if idx < len(times)-1 {
				idx++
			}
		default:
			idx = r.Intn(len(times))
		}
	}
	return fmt.Sprintf("%d %s %s", net, init, strings.Join(ops, ";"))
}

func corpus() []string {
	g := uint64(constants.GENESIS_BLOCK_TIMESTAMP)
	config.DefConfig.P2PNode.NetworkId = 1
	d := uint64(config.GetOntHolderUnboundDeadline())
	pre := g + d - 10
	post := g + d + 10
	big64 := "18446744073709551616000000000" // 2^64 * 10^9: whole part does not fit uint64
	l := []string{
		// plain transfer, self transfer, zero transfer (no witness needed), insufficient, unwitnessed
		fmt.Sprintf("1 ontb.a0=5000000000,ongb.ont=1000000000000000000000000000 ont.t1:%d:a0:-:a0>a1=2;ont.t1:%d:a0:-:a0>a0=3;ont.t1:%d:-:-:a0>a1=0;ont.t1:%d:a0:-:a0>a1=4;ont.t1:%d:a1:-:a0>a1=1", pre, pre, pre, pre, pre),
		// grant before the deadline only accrues an allowance; after it the ONG moves
		fmt.Sprintf("1 ontb.a0=5000000000,ongb.ont=1000000000000000000000000000 ont.t1:%d:a0:-:a0>a1=1;ont.t2:%d:a0:-:a0>a1=1500000000;ong.f1:%d:a0:-:a0/ont>a0=1", pre, post, post+5),
		// empty ONG pool: the grant's transferFrom fails after the allowance was consumed (partial writes in the cache)
		fmt.Sprintf("1 ontb.a0=5000000000,off.a0=100 ont.t1:%d:a0:-:a0>a1=1", post),
		// multi-state transfer failing in the second state
		fmt.Sprintf("1 ontb.a0=5000000000,ongb.ont=1000000000000000000000000000 ont.t1:%d:a0:-:a0>a1=1+a1>a2=7", pre),
		// transferFrom: exact allowance, beyond allowance, zero, from == to, sender == to
		fmt.Sprintf("0 ongb.a0=9000000000,onga.a0>a1=5000000000 ong.f2:%d:a1:-:a1/a0>a2=5000000001;ong.f2:%d:a1:-:a1/a0>a2=0;ong.f2:%d:a1:-:a1/a0>a0=1;ong.f2:%d:a1:-:a1/a0>a1=4999999999;ong.f2:%d:a1:-:a1/a0>a1=1", post, post, post, post, post),
		// contract caller as witness; over-supply; timestamp going backwards
		fmt.Sprintf("1 ontb.a0=5000000000,off.a0=%d,ongb.ont=1000000000000000000000000000 ont.t1:%d:-:a0:a0>a1=1;ont.a1:%d:a0:-:a0>a1=1000000001;ont.t1:%d:a0:-:a0>a1=1;ont.t1:%dp:a0:-:a0>a1=1", d+100, pre, pre, pre, pre),
		// balances whose whole part does not fit uint64 (unreachable states): the Must* conversions panic
		fmt.Sprintf("0 ontb.a0=%s1,ontb.a1=7 ont.t2:%d:a0:-:a0>a1=1;ont.t2:%d:a1:-:a1>a0=1000000000", big64[:len(big64)-1], post, post),
		fmt.Sprintf("0 ongb.a0=%s,ongb.a1=8 ong.t2:%d:a1:-:a1>a0=8;ong.t2:%d:a0:-:a0>a1=1", big64, post, post),
		// credit overflows the uint64 whole part after the debit was written (debit without credit left in the cache)
		fmt.Sprintf("0 ongb.a0=18446744073709551615000000000,ongb.a1=5000000000 ong.t1:%d:a1:-:a1>a0=1;ong.t2:%d:a1:-:a1>a0=999999999", post, post),
		// ONT: MustToInteger64 of the old balance panics after debit and credit were written
		fmt.Sprintf("1 ontb.a0=18446744073709551616000000005,ongb.ont=1000000000000000000000000000 ont.t2:%d:a0:-:a0>a1=2;ont.f2:%d:a1:-:a1/a0>a1=2", post, post),
		// grant: accrued + recorded allowance is a whole amount that does not fit uint64
		fmt.Sprintf("1 ontb.a0=5000000000,onga.ont>a0=18446744073709551616000000000,ongb.ont=1000000000000000000000000000 ont.t1:%d:a0:-:a0>a1=1;ont.t1:%d:a0:-:a0>a1=1", g+1, post),
		// grant: accrued + recorded allowance beyond the ONG supply
		fmt.Sprintf("1 ontb.a0=5000000000,onga.ont>a0=1000000000000000000000000001,ongb.ont=1000000000000000000000000000 ont.t1:%d:a0:-:a0>a1=1", post),
		// governance address receives ONT after the deadline: allowance accrues, no automatic ONG transfer
		fmt.Sprintf("1 ontb.a0=5000000000,ontb.gov=7000000000,ongb.ont=1000000000000000000000000000 ont.t1:%d:a0:-:a0>gov=1;ont.t1:%d:gov:-:gov>a0=1", post, post+100),
		// the ONT contract address among the signature addresses: the post-deadline exception of TransferedFrom
		fmt.Sprintf("1 ongb.ont=9000000000,onga.ont>a1=5000000000 ong.f2:%d:ont:-:a1/ont>a1=1000000000;ong.f2:%d:ont:-:a1/ont>a1=1000000000;ong.f2:%d:-:ont:a1/ont>a1=1000000000;ong.f2:%d:ont:-:a1/ont>a2=1", pre, post, post, post),
	}
	return l
}

func main() {
	initAddrs()
	hx.Main(hx.Prop{
		ID: "C06",
		Rule: "histories of 1-10 calls (transfer/approve/transferFrom, v1 and v2, ONT and ONG) over accounts a0..a3 + ONT/ONG/governance contract addresses on networks 1,2,0,3; " +
			"initial distributions incl. fractional balances, accrued ONG allowances, empty ONG pool, unbound offsets around the holder deadline; amounts 0,1,bal,bal±1,supply,supply+1,k*10^9,fractional; " +
			"signer sets mostly-but-not-always the required witness, contract callers, block times around genesis and the holder deadline incl. going backwards and PreExec. " +
			"Non-trivial = a history with at least one successful call; kinds = <token.op>:<result of the last call>+flags (ongmoved = ONT call moved ONG, ongaccrued, self)",
		Gen:    gen,
		Exec:   exec,
		Corpus: corpus(),
		Init: func() {
			log.InitLog(log.FatalLog) // no writers: the contracts' log.Error lines are discarded
			ont.InitOnt()
			ong.InitOng()
		},
		N: map[string]int{"quick": 6000, "thorough": 400000},
	})
}
