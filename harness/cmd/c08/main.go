// C08 harness: histories on a real StateDB (real CacheDB/OverlayDB/memory LevelDB, real ong.OngBalanceHandle) with
// nested Snapshot / RevertToSnapshot / DiscardSnapshot. Output = results of the ops that return something and the full
// getter observation at every `o` (compared with the Lean model). Predicate on the implementation's own outputs: the
// observation recorded when Snapshot() returned id i equals the observation right after RevertToSnapshot(i); Discard
// changes no getter; snapshot ids are stack positions; revert/discard panic exactly on invalid ids.
package main

import (
	"bytes"
	"fmt"
	"math/big"
	"strconv"
	"strings"

	ethcomm "github.com/ethereum/go-ethereum/common"
	"github.com/ethereum/go-ethereum/crypto"
	"github.com/ontio/ontology/core/store/leveldbstore"
	"github.com/ontio/ontology/core/store/overlaydb"
	"github.com/ontio/ontology/core/types"
	"github.com/ontio/ontology/smartcontract/service/native/ong"
	"github.com/ontio/ontology/smartcontract/storage"
	"verif/harness/internal/hx"
)

var addrs = []ethcomm.Address{
	{},
	ethcomm.BytesToAddress([]byte{1}),
	ethcomm.BytesToAddress(bytes.Repeat([]byte{0xff}, 20)),
	ethcomm.BytesToAddress(bytes.Repeat([]byte{0x11}, 20)),
	ethcomm.BytesToAddress([]byte{2}), // = utils.OngContractAddress
}
var slots = []ethcomm.Hash{
	{},
	ethcomm.BytesToHash([]byte{1}),
	ethcomm.BytesToHash(bytes.Repeat([]byte{0xff}, 32)),
}

func short(b []byte) string { return hx.Hex(bytes.TrimLeft(b, "\x00")) }

type fieldObs struct{ name, val string }

func observeFields(sd *storage.StateDB) []fieldObs {
	var f []fieldObs
	for i, a := range addrs {
		p := "a" + strconv.Itoa(i) + "."
		ch := sd.GetCodeHash(a)
		f = append(f,
			fieldObs{p + "nonce", strconv.FormatUint(sd.GetNonce(a), 10)},
			fieldObs{p + "codehash", short(ch[:])},
			fieldObs{p + "code", hx.Hex(sd.GetCode(a))},
			fieldObs{p + "balance", sd.GetBalance(a).String()},
			fieldObs{p + "exist", hx.B(sd.Exist(a))},
			fieldObs{p + "empty", hx.B(sd.Empty(a))},
			fieldObs{p + "suicided", hx.B(sd.HasSuicided(a))})
		var st []string
		for _, k := range slots {
			v := sd.GetState(a, k)
			st = append(st, short(v[:]))
		}
		f = append(f, fieldObs{p + "state", strings.Join(st, "/")})
	}
	f = append(f, fieldObs{"refund", strconv.FormatUint(sd.GetRefund(), 10)})
	var lg []string
	for _, l := range sd.GetLogs() {
		lg = append(lg, hx.Hex(l.Data))
	}
	if len(lg) == 0 {
		lg = []string{"-"}
	}
	f = append(f, fieldObs{"logs", strings.Join(lg, ",")})
	return f
}

func render(f []fieldObs, err bool) string {
	var sb strings.Builder
	per := 8
	for i := range addrs {
		g := f[i*per : (i+1)*per]
		fmt.Fprintf(&sb, "a%d:n=%s,h=%s,c=%s,b=%s,x=%s,e=%s,s=%s,st=%s ", i, g[0].val, g[1].val, g[2].val, g[3].val, g[4].val, g[5].val, g[6].val, g[7].val)
	}
	n := len(addrs) * per
	fmt.Fprintf(&sb, "rf=%s lg=%s err=%s", f[n].val, f[n+1].val, hx.B(err))
	return sb.String()
}

func diffField(a, b []fieldObs) string {
	for i := range a {
		if a[i].val != b[i].val {
			n := a[i].name
			if j := strings.Index(n, "."); j >= 0 {
				n = n[j+1:]
			}
			return n
		}
	}
	return ""
}

var (
	curStore *leveldbstore.LevelDBStore
	curUses  int
)

func freshStore() *leveldbstore.LevelDBStore {
	if curStore != nil && curUses >= 40 {
		curStore.Close()
		curStore = nil
	}
	if curStore == nil {
		curStore = leveldbstore.NewMemLevelDBStore()
		curUses = 0
	}
	curUses++
	it := curStore.NewIterator(nil)
	var ks [][]byte
	for has := it.First(); has; has = it.Next() {
		ks = append(ks, append([]byte{}, it.Key()...))
	}
	it.Release()
	for _, k := range ks {
		curStore.Delete(k)
	}
	return curStore
}

// call runs f; a panic is an observation (the Go API panics on invalid snapshot ids / refund underflow)
func call(f func()) (panicked bool) {
	defer func() {
		if recover() != nil {
			panicked = true
		}
	}()
	f()
	return false
}

func exec(line string) hx.Result {
	f := strings.Fields(line)
	if len(f) != 2 || f[0] != "E" {
		return hx.Result{Out: "bad-op"}
	}
	store := freshStore()
	ov := overlaydb.NewOverlayDB(store)
	cache := storage.NewCacheDB(ov)
	sd := storage.NewStateDB(cache, ethcomm.Hash{}, ethcomm.Hash{}, ong.OngBalanceHandle{})
	res := hx.Result{}
	var outs []string
	fail := func(class, msg string) {
		if res.Fail == "" {
			res.Fail, res.Class = msg, class
		}
	}
	depth := 0
	maxDepth := 0
	reverts, nestedReverts := 0, 0
	commits, commitWithLive := 0, 0
	atSnap := map[int][]fieldObs{}
	bad := hx.Result{Out: "bad-op"}
	for _, o := range strings.Split(f[1], ";") {
		a := strings.Split(o, ":")
		idx := func(s string, n int) int {
			v, err := strconv.Atoi(s)
			if err != nil || v < 0 || v >= n {
				return -1
			}
			return v
		}
		switch {
		case a[0] == "ss" && len(a) == 4:
			ai, si := idx(a[1], len(addrs)), idx(a[2], len(slots))
			v, err := hx.Unhex(a[3])
			if ai < 0 || si < 0 || err != nil {
				return bad
			}
			sd.SetState(addrs[ai], slots[si], ethcomm.BytesToHash(v))
		case a[0] == "sn" && len(a) == 3:
			ai := idx(a[1], len(addrs))
			n, err := strconv.ParseUint(a[2], 10, 64)
			if ai < 0 || err != nil {
				return bad
			}
			sd.SetNonce(addrs[ai], n)
		case a[0] == "sc" && len(a) == 4:
			ai := idx(a[1], len(addrs))
			code, e1 := hx.Unhex(a[2])
			h, e2 := hx.Unhex(a[3])
			if ai < 0 || e1 != nil || e2 != nil || !bytes.Equal(crypto.Keccak256(code), h) {
				return bad
			}
			sd.SetCode(addrs[ai], code)
		case (a[0] == "ab" || a[0] == "sb") && len(a) == 3:
			ai := idx(a[1], len(addrs))
			n, ok := new(big.Int).SetString(a[2], 10)
			if ai < 0 || !ok || n.Sign() < 0 {
				return bad
			}
			if a[0] == "ab" {
				sd.AddBalance(addrs[ai], n)
			} else {
				sd.SubBalance(addrs[ai], n)
			}
		case a[0] == "su" && len(a) == 2:
			ai := idx(a[1], len(addrs))
			if ai < 0 {
				return bad
			}
			outs = append(outs, "su="+hx.B(sd.Suicide(addrs[ai])))
		case a[0] == "al" && len(a) == 2:
			d, err := hx.Unhex(a[1])
			if err != nil {
				return bad
			}
			sd.AddLog(&types.StorageLog{Address: addrs[1], Data: d})
		case a[0] == "ar" && len(a) == 2:
			n, err := strconv.ParseUint(a[1], 10, 64)
			if err != nil {
				return bad
			}
			sd.AddRefund(n)
		case a[0] == "sr" && len(a) == 2:
			n, err := strconv.ParseUint(a[1], 10, 64)
			if err != nil {
				return bad
			}
			if call(func() { sd.SubRefund(n) }) {
				outs = append(outs, "sr=panic")
			} else {
				outs = append(outs, "sr=ok")
			}
		case a[0] == "snap" && len(a) == 1:
			before := observeFields(sd)
			id := sd.Snapshot()
			outs = append(outs, "snap="+strconv.Itoa(id))
			if id != depth {
				fail("snapshot-id-not-stack-position", fmt.Sprintf("Snapshot() returned %d with %d live snapshots", id, depth))
			}
			if d := diffField(before, observeFields(sd)); d != "" {
				fail("snapshot-changes-"+d, "Snapshot() changed getter "+d)
			}
			atSnap[id] = before
			depth = id + 1
			if depth > maxDepth {
				maxDepth = depth
			}
		case (a[0] == "rev" || a[0] == "dis") && len(a) == 2:
			i, err := strconv.Atoi(a[1])
			if err != nil {
				return bad
			}
			before := observeFields(sd)
			var p bool
			if a[0] == "rev" {
				p = call(func() { sd.RevertToSnapshot(i) })
			} else {
				p = call(func() { sd.DiscardSnapshot(i) })
			}
			valid := i >= 0 && i < depth
			if p {
				outs = append(outs, a[0]+"=panic")
			} else {
				outs = append(outs, a[0]+"=ok")
			}
			after := observeFields(sd)
			switch {
			case p == valid:
				fail(a[0]+"-validity", fmt.Sprintf("%s(%d) with %d live snapshots: panicked=%v", a[0], i, depth, p))
			case p:
				if d := diffField(before, after); d != "" {
					fail(a[0]+"-panic-changes-"+d, "a rejected "+a[0]+" changed getter "+d)
				}
			case a[0] == "rev":
				reverts++
				if i < depth-1 {
					nestedReverts++
				}
				if d := diffField(atSnap[i], after); d != "" {
					fail("revert-does-not-restore-"+d, fmt.Sprintf("after RevertToSnapshot(%d) getter %s differs from its value when the snapshot was taken", i, d))
				}
				depth = i
			default:
				if d := diffField(before, after); d != "" {
					fail("discard-changes-"+d, "DiscardSnapshot changed getter "+d)
				}
				depth = i
			}
		case (a[0] == "cm" || a[0] == "ct") && len(a) == 1:
			// StateDB.Commit / CommitToCacheDB: deletes the self-destructed accounts and their storage, cuts the snapshot stack
			var dead []int
			for i, ad := range addrs {
				if sd.HasSuicided(ad) {
					dead = append(dead, i)
				}
			}
			var err error
			if a[0] == "cm" {
				err = sd.Commit()
			} else {
				err = sd.CommitToCacheDB()
			}
			if err != nil {
				return bad
			}
			commits++
			after := observeFields(sd)
			per := 8
			for _, i := range dead {
				g := after[i*per : (i+1)*per]
				if g[0].val != "0" || g[1].val != "-" || g[6].val != "0" || g[7].val != "-/-/-" {
					fail("commit-leaves-selfdestructed-account", fmt.Sprintf("after %s address %d (self-destructed) still has nonce=%s codehash=%s suicided=%s state=%s", a[0], i, g[0].val, g[1].val, g[6].val, g[7].val))
				}
			}
			if depth > 0 {
				commitWithLive++
			}
			depth = 0 // every snapshot id handed out so far is dead now
		case a[0] == "cc" && len(a) == 1:
			cache.Commit()
		case a[0] == "bc" && len(a) == 1:
			store.NewBatch()
			ov.CommitTo()
			if store.BatchCommit() != nil {
				return bad
			}
			ov.Reset()
		case a[0] == "o" && len(a) == 1:
			outs = append(outs, render(observeFields(sd), sd.DbErr() != nil))
		default:
			return bad
		}
	}
	if len(outs) == 0 {
		res.Out = "-"
	} else {
		res.Out = strings.Join(outs, " | ")
	}
	res.Kind = fmt.Sprintf("depth%d-rev%d-nested%d", capInt(maxDepth, 4), capInt(reverts, 3), capInt(nestedReverts, 2))
	if commits > 0 {
		res.Kind += fmt.Sprintf("-commit%d-live%d", capInt(commits, 2), capInt(commitWithLive, 1))
	}
	if reverts > 0 {
		res.Key = line
	}
	return res
}

func capInt(a, b int) int {
	if a < b {
		return a
	}
	return b
}

func genMut(r *hx.Rand) string {
	a := strconv.Itoa(r.Intn(len(addrs)))
	switch r.Intn(14) {
	case 0, 1, 2:
		v := []string{"-", "01", "ff", hx.Hex(r.Bytes(1 + r.Intn(32)))}[r.Intn(4)]
		return "ss:" + a + ":" + strconv.Itoa(r.Intn(len(slots))) + ":" + v
	case 3, 4:
		return "sn:" + a + ":" + []string{"0", "1", "7", "18446744073709551615"}[r.Intn(4)]
	case 5, 6:
		code := [][]byte{{}, {0x60, 0x00}, {0xfe}, r.Bytes(1 + r.Intn(6))}[r.Intn(4)]
		return "sc:" + a + ":" + hx.Hex(code) + ":" + hx.Hex(crypto.Keccak256(code))
	case 7, 8:
		return "ab:" + a + ":" + []string{"0", "1", "1000000000", "2500000000", "999999999"}[r.Intn(5)]
	case 9:
		return "sb:" + a + ":" + []string{"0", "1", "1000000000", "500000000", "3000000000"}[r.Intn(5)]
	case 10:
		return "su:" + a
	case 11:
		return "al:" + hx.Hex(r.Bytes(r.Intn(3)))
	case 12:
		return "ar:" + []string{"0", "5", "4800", "18446744073709551615"}[r.Intn(4)]
	default:
		return "sr:" + []string{"0", "5", "4800", "1"}[r.Intn(4)]
	}
}

func gen(r *hx.Rand, tier string, i int) string {
	var ops []string
	// pre-populated lower layers
	if r.Chance(60) {
		for j := r.Intn(6); j > 0; j-- {
			ops = append(ops, genMut(r))
		}
		ops = append(ops, "cc")
		if r.Chance(50) {
			ops = append(ops, "bc")
			for j := r.Intn(4); j > 0; j-- {
				ops = append(ops, genMut(r))
			}
			ops = append(ops, "cc")
		}
	}
	depth := 0
	n := 4 + r.Intn(28)
	for j := 0; j < n; j++ {
		switch x := r.Intn(100); {
		case x < 55:
			ops = append(ops, genMut(r))
		case x < 75:
			ops = append(ops, "snap")
			depth++
		case x < 90:
			i := depth - 1 - r.Intn(3) // mostly valid, to the top or below it (nested)
			if r.Chance(10) {
				i = depth + r.Intn(2) - r.Intn(3)
			}
			ops = append(ops, "rev:"+strconv.Itoa(i), "o")
			if i >= 0 && i < depth {
				depth = i
			}
		case x >= 97 && x < 99:
			ops = append(ops, []string{"cm", "ct"}[r.Intn(2)])
			if r.Chance(60) && depth > 0 { // a revert/discard of an id from before the commit: must be rejected
				ops = append(ops, []string{"rev:", "dis:"}[r.Intn(2)]+strconv.Itoa(r.Intn(depth)), "o")
			}
			depth = 0
		case x < 95:
			i := depth - 1 - r.Intn(2)
			if r.Chance(10) {
				i = depth + r.Intn(2) - r.Intn(3)
			}
			ops = append(ops, "dis:"+strconv.Itoa(i))
			if i >= 0 && i < depth {
				depth = i
			}
		default:
			ops = append(ops, "o")
		}
	}
	ops = append(ops, "o")
	return "E " + strings.Join(ops, ";")
}

func main() {
	k0 := hx.Hex(crypto.Keccak256([]byte{0x60, 0x00}))
	hx.Main(hx.Prop{
		ID:   "C08",
		Rule: "histories (optionally after pre-populating overlay and store through CacheDB.Commit / block commit) of SetState/SetNonce/SetCode/AddBalance/SubBalance/Suicide/AddLog/AddRefund/SubRefund over 5 addresses (incl. the ONG contract address) and 3 slots, interleaved with Snapshot, RevertToSnapshot (top, nested below top, invalid ids), DiscardSnapshot, and (2%) StateDB.Commit / CommitToCacheDB followed by a revert/discard of an id from before the commit (must be rejected). Non-trivial = at least one successful revert; kinds = max snapshot depth / number of reverts / reverts below the top of the stack",
		Gen:  gen,
		Exec: exec,
		Corpus: []string{
			"E ss:1:1:07;sn:1:5;ab:2:1000;snap;sb:2:400;ss:1:1:-;al:aa;ar:7;su:1;o;rev:0;o;rev:0;sr:9",
			"E snap;snap;snap;ar:5;rev:1;o;rev:1;rev:0;o;dis:0;rev:-1;dis:-1",
			"E sn:0:1;cc;bc;snap;su:0;snap;sn:0:0;o;rev:1;o;rev:0;o",
			"E sc:3:6000:" + k0 + ";snap;sc:3:-:" + hx.Hex(crypto.Keccak256(nil)) + ";o;snap;al:01;al:02;rev:1;al:03;o;rev:0;o",
			"E ab:4:2500000000;cc;snap;sb:4:500000000;sb:4:9000000000;o;snap;ss:4:2:ff;dis:1;rev:0;o",
			"E al:-;snap;al:01;snap;al:02;rev:1;al:03;snap;al:04;rev:0;al:05;o",
			"E ss:1:1:07;sn:1:5;ss:2:0:09;sn:2:1;cc;ss:1:2:08;snap;su:1;cm;o;rev:0;snap;sn:2:3;rev:0;o",
			"E sn:4:1;ab:0:1000000000;ab:4:2000000000;cc;bc;snap;su:4;ct;o;dis:0;o",
			"E sn:1:1;sn:2:1;ss:1:0:01;ss:2:0:02;ss:2:2:03;snap;su:2;su:1;snap;ct;o;cm;o",
		},
		N: map[string]int{"quick": 8000, "thorough": 200000},
	})
}
