module verif/harness

go 1.17

require github.com/ontio/ontology v0.0.0

replace github.com/ontio/ontology => /repo

require (
	github.com/JohnCGriffin/overflow v0.0.0-20170615021017-4d914c927216
	github.com/blang/semver v3.5.1+incompatible
	github.com/btcsuite/btcd v0.22.0-beta
	github.com/ethereum/go-ethereum v1.9.25
	github.com/gammazero/workerpool v1.1.2
	github.com/gorilla/websocket v1.4.1
	github.com/gosuri/uiprogress v0.0.1
	github.com/graph-gophers/graphql-go v1.2.1-0.20210916100229-446a2dd13dd5
	github.com/hashicorp/golang-lru v0.5.4
	github.com/holiman/uint256 v1.1.1
	github.com/howeyc/gopass v0.0.0-20210920133722-c8aef6fb66ef
	github.com/itchyny/base58-go v0.1.0
	github.com/laizy/bigint v0.1.3
	github.com/ontio/ontology-crypto v1.2.1
	github.com/ontio/ontology-eventbus v0.9.1
	github.com/ontio/wagon v0.4.2
	github.com/pborman/uuid v1.2.0
	github.com/prometheus/client_golang v0.9.1
	github.com/scylladb/go-set v1.0.2
	github.com/stretchr/testify v1.4.0
	github.com/syndtr/goleveldb v1.0.1-0.20200815110645-5c35d600f0ca
	github.com/urfave/cli v1.22.1
	golang.org/x/crypto v0.0.0-20200622213623-75b288015ac9
	golang.org/x/net v0.0.0-20210805182204-aaa1db679c0d
)

require (
	github.com/VictoriaMetrics/fastcache v1.5.7 // indirect
	github.com/Workiva/go-datastructures v1.0.50 // indirect
	github.com/aristanetworks/goarista v0.0.0-20170210015632-ea17b1a17847 // indirect
	github.com/beorn7/perks v0.0.0-20180321164747-3a771d992973 // indirect
	github.com/cespare/xxhash/v2 v2.1.1 // indirect
	github.com/cpuguy83/go-md2man/v2 v2.0.0-20190314233015-f79a8a8ca69d // indirect
	github.com/davecgh/go-spew v1.1.1 // indirect
	github.com/deckarep/golang-set v0.0.0-20180603214616-504e848d77ea // indirect
	github.com/edsrzf/mmap-go v0.0.0-20160512033002-935e0e8a636c // indirect
	github.com/emirpasic/gods v1.12.0 // indirect
	github.com/fjl/memsize v0.0.0-20180418122429-ca190fb6ffbc // indirect
	github.com/gammazero/deque v0.1.0 // indirect
	github.com/gballet/go-libpcsclite v0.0.0-20190607065134-2772fd86a8ff // indirect
	github.com/go-ole/go-ole v1.2.6 // indirect
	github.com/go-stack/stack v1.8.0 // indirect
	github.com/gogo/protobuf v1.1.1 // indirect
	github.com/golang/protobuf v1.4.2 // indirect
	github.com/golang/snappy v0.0.3-0.20201103224600-674baa8c7fc3 // indirect
	github.com/google/uuid v1.0.0 // indirect
	github.com/gosuri/uilive v0.0.3 // indirect
	github.com/huin/goupnp v1.0.0 // indirect
	github.com/jackpal/go-nat-pmp v1.0.2-0.20160603034137-1fa385a6f458 // indirect
	github.com/karalabe/usb v0.0.0-20190919080040-51dc0efba356 // indirect
	github.com/mattn/go-colorable v0.1.0 // indirect
	github.com/mattn/go-isatty v0.0.10 // indirect
	github.com/mattn/go-runewidth v0.0.4 // indirect
	github.com/matttproud/golang_protobuf_extensions v1.0.1 // indirect
	github.com/olekukonko/tablewriter v0.0.2-0.20190409134802-7e037d187b0c // indirect
	github.com/opentracing/opentracing-go v1.1.0 // indirect
	github.com/orcaman/concurrent-map v0.0.0-20210501183033-44dafcb38ecc // indirect
	github.com/peterh/liner v1.1.1-0.20190123174540-a2c9a5303de7 // indirect
	github.com/pkg/errors v0.8.1 // indirect
	github.com/pmezard/go-difflib v1.0.0 // indirect
	github.com/prometheus/client_model v0.0.0-20180712105110-5c3871d89910 // indirect
	github.com/prometheus/common v0.0.0-20181113130724-41aa239b4cce // indirect
	github.com/prometheus/procfs v0.0.0-20181005140218-185b4288413d // indirect
	github.com/prometheus/tsdb v0.6.2-0.20190402121629-4f204dcbc150 // indirect
	github.com/rjeczalik/notify v0.9.1 // indirect
	github.com/rs/cors v0.0.0-20160617231935-a62a804a8a00 // indirect
	github.com/rs/xhandler v0.0.0-20160618193221-ed27b6fd6521 // indirect
	github.com/russross/blackfriday/v2 v2.0.1 // indirect
	github.com/shirou/gopsutil v3.21.11+incompatible // indirect
	github.com/shurcooL/sanitized_anchor_name v1.0.0 // indirect
	github.com/status-im/keycard-go v0.0.0-20190316090335-8537d3370df4 // indirect
	github.com/steakknife/bloomfilter v0.0.0-20180922174646-6819c0d2a570 // indirect
	github.com/steakknife/hamming v0.0.0-20180906055917-c99c65617cd3 // indirect
	github.com/tklauser/go-sysconf v0.3.10 // indirect
	github.com/tklauser/numcpus v0.4.0 // indirect
	github.com/tyler-smith/go-bip39 v1.0.1-0.20181017060643-dbb3b84ba2ef // indirect
	github.com/wsddn/go-ecdh v0.0.0-20161211032359-48726bab9208 // indirect
	github.com/yusufpapurcu/wmi v1.2.2 // indirect
	golang.org/x/sys v0.0.0-20220128215802-99c3d69c2c27 // indirect
	golang.org/x/term v0.0.0-20201126162022-7de9c90e9dd1 // indirect
	golang.org/x/text v0.3.6 // indirect
	google.golang.org/protobuf v1.23.0 // indirect
	gopkg.in/natefinch/npipe.v2 v2.0.0-20160621034901-c1b8fa8bdcce // indirect
	gopkg.in/urfave/cli.v1 v1.20.0 // indirect
	gopkg.in/yaml.v2 v2.3.0 // indirect
)

replace (
	golang.org/x/crypto => github.com/golang/crypto v0.0.0-20210921155107-089bfa567519
	golang.org/x/net => github.com/golang/net v0.0.0-20210924151903-3ad01bbaa167
	golang.org/x/sys => github.com/golang/sys v0.0.0-20210927052749-1cf2251ac284
	golang.org/x/text => github.com/golang/text v0.3.0
)
