module verif/harness

go 1.17

require github.com/ontio/ontology v0.0.0

require (
	github.com/btcsuite/btcd v0.22.0-beta // indirect
	github.com/ethereum/go-ethereum v1.9.25 // indirect
	github.com/itchyny/base58-go v0.1.0 // indirect
	github.com/ontio/ontology-crypto v1.2.1 // indirect
	golang.org/x/crypto v0.0.0-20200622213623-75b288015ac9 // indirect
)

replace github.com/ontio/ontology => /repo

replace (
	golang.org/x/crypto => github.com/golang/crypto v0.0.0-20210921155107-089bfa567519
	golang.org/x/net => github.com/golang/net v0.0.0-20210924151903-3ad01bbaa167
	golang.org/x/sys => github.com/golang/sys v0.0.0-20210927052749-1cf2251ac284
	golang.org/x/text => github.com/golang/text v0.3.0
)
